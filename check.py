#!/usr/bin/env python
"""Entry point: check.py <Cxx> [--tier quick|thorough] [--replay PATH]

exit 0: property held on everything explored (KNOWN-FINDING lines allowed)
exit 1: a line `VIOLATION property=<id> replay=<path>` was printed
exit 2: harness error (never a violation claim)
"""
import os
import sys

sys.path.insert(0, os.path.dirname(os.path.abspath(__file__)))
from vlib import boot  # noqa: E402

boot.boot()


def main(argv):
    if len(argv) < 2:
        print(__doc__)
        return 2
    pid = argv[1].upper()
    tier = os.environ.get("VERIF_TIER", "quick")
    replay = None
    i = 2
    while i < len(argv):
        if argv[i] == "--tier":
            tier = argv[i + 1]
            i += 1
        elif argv[i] == "--replay":
            replay = argv[i + 1]
            i += 1
        i += 1
    if tier not in ("quick", "thorough"):
        tier = "quick"
    from vlib import runner
    try:
        return runner.main(pid, tier, replay)
    except SystemExit:
        raise
    except BaseException:
        import traceback
        traceback.print_exc()
        print("HARNESS-ERROR: unexpected exception in the runner")
        return 2


if __name__ == "__main__":
    sys.exit(main(sys.argv))
