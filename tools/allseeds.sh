#!/bin/bash
# re-run every stored seeded change against its own property's quick check: allseeds.sh [name-pattern]
cd /verif
for d in seeded/${1:-C*}; do
  [ -f $d/patch.diff ] || continue
  NAME=$(basename $d); P=${NAME%%-*}
  OUT=$(tools/fastseed.sh $NAME $P 2>&1)
  RC=$(echo "$OUT" | grep -o "rc=[0-9]*" | head -1)
  KEYS=$(echo "$OUT" | grep -c "^FAIL")
  echo "$NAME $RC fail-lines=$KEYS $(echo "$OUT" | grep 'quick:' | grep -o 'inconclusive.*' )"
done
