#!/bin/bash
# run checks only (deliverables already copied): fastseed.sh NAME PROPS...
NAME=$1; shift
COPY=/scratch/seedcopy_${NAME}_$$
rm -rf $COPY; mkdir -p /scratch; rsync -a --exclude .git --exclude __pycache__ /repo/ $COPY/
(cd $COPY && patch -p1 -s < /verif/seeded/$NAME/patch.diff) || { echo "PATCH DOES NOT APPLY"; rm -rf $COPY; exit 2; }
for P in "$@"; do
  (cd /verif && VERIF_REPO=$COPY VERIF_NOSHRINK=1 VERIF_EVIDENCE_DIR=/tmp/seed_ev VERIF_REPLAY_DIR=/tmp/seed_rp /venv/bin/python check.py $P --tier quick > /tmp/seed_$NAME.$P.out 2>&1; echo "check $P rc=$?"; grep -E "^FAIL|quick:" /tmp/seed_$NAME.$P.out | cut -c1-240 | head -5)
done
rm -rf $COPY /tmp/seed_ev /tmp/seed_rp
