#!/bin/bash
# development aid: line coverage of /repo/verif and /repo/scripts under the quick checks
#   tools/linecov.sh [props...]   -> /scratch/linecov/report.txt (missing lines per file)
D=/scratch/linecov; rm -rf $D; mkdir -p $D
cd /verif
for P in ${@:-C01 C02 C03 C04 C05 C06 C07 C08 C09 C10 C11 C12 C13 C14 C15 C16 C17 C18 C19 C20}; do
  VERIF_LINECOV=$D COVERAGE_CORE=sysmon VERIF_NOSHRINK=1 VERIF_EVIDENCE_DIR=$D/ev VERIF_REPLAY_DIR=$D/rp /venv/bin/python check.py $P --tier quick 2>&1 | tail -1
done
cd $D && /venv/bin/python -m coverage combine --keep -q --data-file=$D/all cov.* && /venv/bin/python -m coverage report -m --data-file=$D/all --include='/repo/verif/*,/repo/scripts/*' > $D/report.txt; tail -25 $D/report.txt | cut -c1-200
