#!/usr/bin/env python
"""Regenerates MANIFEST.json from the table below (kept valid at all times)."""
import json
import os

HERE = os.path.dirname(os.path.dirname(os.path.abspath(__file__)))
PY = "/venv/bin/python"

# id -> (technique, level text, level note, design ref)
CHECKS = {
    "C07": ("exhaustive enumeration of value/threshold order relations + Hypothesis random floats against a plain-comparison oracle",
            "Complete enumeration of the order relations a value can have to 1-3 thresholds for all eight bin types (scalar, array, "
            "apply_threshold, 2x2 cells, event probabilities, partition laws) plus random float cases; decides the property on the "
            "finite relation domain and samples it beyond.",
            "Trusts the documented meaning of -b in the help text; thresholds finite and non-decreasing.",
            "DESIGN.md section 5, C07"),
}

NOT_APPLICABLE = {
}

ALL = ["C%02d" % i for i in range(1, 21)]


def main():
    checks = []
    for pid in ALL:
        if pid not in CHECKS:
            continue
        tech, text, note, ref = CHECKS[pid]
        checks.append({
            "property_id": pid,
            "quick_cmd": "%s check.py %s --tier quick" % (PY, pid),
            "thorough_cmd": "%s check.py %s --tier thorough" % (PY, pid),
            "evidence_file": "evidence/%s.json" % pid,
            "replay_cmd_template": "%s check.py %s --replay {path}" % (PY, pid),
            "engine": "pbt",
            "level_claimed": {"category": "exploration", "text": text, "design_ref": ref},
            "level_note": note,
            "technique": tech,
        })
    na = []
    for pid in ALL:
        if pid in CHECKS:
            continue
        na.append({"property_id": pid, "reason": NOT_APPLICABLE.get(pid, "check not built yet in this session (planned: see DESIGN.md section 5); not claimed until its check exists and is quiet on the unchanged tree")})
    m = {
        "version": 1,
        "setup_cmd": "%s -c 'import hypothesis' 2>/dev/null || %s -m pip install --quiet --no-index --find-links /opt/veriftools/wheels --target /verif/.deps hypothesis" % (PY, PY),
        "hooks": {
            "guard": "WFRT_VERIF_VERIF",
            "enable": "no source hooks are needed: checks import verif from /repo's working tree in-process (check.py sets WFRT_VERIF_VERIF=1, PYTHONHASHSEED=0, MPLBACKEND=Agg)",
            "baseline_off_cmd": "cd /repo && env -u WFRT_VERIF_VERIF /venv/bin/python -m pytest -ra -q -p no:cacheprovider --timeout=900 --continue-on-collection-errors",
            "source_commits": [],
            "add_only": True,
        },
        "engines": [
            {"name": "pbt", "path": "check.py", "serves_properties": sorted(CHECKS.keys()),
             "kind_free_text": "Hypothesis-driven and exhaustive generated-input campaigns (vlib/runner.py) against independent reference models (vlib/model.py), sharded over 16 processes; collect-bucket-shrink with replay files"},
        ],
        "checks": checks,
        "not_applicable": na,
        "notes": "All checks: cwd=/verif, exit 0 held / 1 VIOLATION / 2 harness error. Known findings: KNOWN_FINDINGS.txt. fix: commits in /repo are listed there as 'fixed:'.",
    }
    with open(os.path.join(HERE, "MANIFEST.json"), "w") as f:
        json.dump(m, f, indent=1)
        f.write("\n")


if __name__ == "__main__":
    main()
