#!/usr/bin/env python
"""Regenerates MANIFEST.json from the table below (kept valid at all times)."""
import json
import os

HERE = os.path.dirname(os.path.dirname(os.path.abspath(__file__)))
PY = "/venv/bin/python"

# id -> (technique, level text, level note, design ref)
DS_NOTE = ("Trusts the dictionary model of vlib/model.py (written from the property statement, no verif import) and the "
           "generator's input preconditions (unique dimension values per file, consistent location metadata and observations across files).")
CHECKS = {
    "C01": ("Hypothesis-generated multi-file datasets; differential against a coordinate-keyed dictionary model + metamorphic value replacement + csv counts through the real readers",
            "Every request/axis/slice/input of ~2400 (quick) generated datasets is compared both ways with the model's valid-case set; "
            "identical masks/observations for all inputs; changing one input's values leaves the others bit-identical; -agg count columns through text/NetCDF files.",
            DS_NOTE, "DESIGN.md section 5, C01"),
    "C02": ("Hypothesis-generated datasets with per-file orderings; cell-by-cell differential against the dictionary model + metamorphic permutation of entries/rows/columns/files + alone-vs-together relation (an input read alone gives the values it contributes to a joint run, with and without -T)",
            "3D results are checked cell by cell against the value each file stores at those coordinates; re-permuting entries (in memory, text rows and columns, NetCDF) "
            "and the order of files must leave results unchanged / permute csv columns only.",
            DS_NOTE, "DESIGN.md section 5, C02"),
    "C03": ("Hypothesis-generated (dataset, subsetting options) pairs with data-relative option values; differential against the model's intersection-and-subset through the API, --list-* and csv",
            "Data.times/leadtimes/locations, --list-times/--list-dates/--list-locations, csv row descriptors and the valid cases under -obsrange equal the model; empty selections never yield numbers.",
            DS_NOTE + " -tod with whole-hour initialisation times only.", "DESIGN.md section 5, C03"),
    "C04": ("metamorphic insertion of all-missing cases for all 70 metrics (Hypothesis) + re-encoding round trips through text/NetCDF files + enumerated reader cases + metamorphic climatology-quotient campaign (zeros planted vs climatology missing) + ensemble-member oracle",
            "Scores pooled over an inserted slice whose cases are missing in one input are bit-identical with and without it for every metric, the all-missing slice reports NaN, no metric raises; "
            "all missing encodings read back as NaN exactly at the missing cells and give identical scores.",
            "Scores are taken from verif.output.Standard._get_x_y (the code path of -type csv) on in-memory inputs for the insert oracle.", "DESIGN.md section 5, C04"),
    "C09": ("Hypothesis-generated well-formed text files (grammar over column sets/orders, spellings, separators, comments, sparsity, missing tokens); round-trip oracle: what verif.input.Text reads equals what was written, cell by cell",
            "Dims, location metadata (by id, or by lat/lon/elev without ids), every cell of obs/fcst/pit/ensemble/cdf/quantile/other arrays, threshold/quantile/member values and variable metadata are compared with the rows written.",
            "Well-formedness as listed in the evidence assumptions (no blank lines, '#' in column 0, unique coordinates, consistent metadata).", "DESIGN.md section 5, C09"),
    "C10": ("Hypothesis-generated datasets written both as NetCDF (layout, dtype and missing-encoding variants) and as text; round-trip and differential oracles between the two readers, the text2nc script and content-based detection",
            "NetCDF attributes equal the spec, both readers agree on dims/metadata/fields/scores, text2nc preserves every value to float32, files with wrong or no extension are detected by content.",
            "float32-representable numbers; ids 0..n-1 when the location variable is absent; elevation not compared without altitude.", "DESIGN.md section 5, C10"),
    "C20": ("Hypothesis-generated input files and script options; the scripts are run in-process and their NetCDF output is compared with plain NumPy reference computations and validity predicates",
            "accumulate (window sums, incomplete windows, -i), ens2prob (cdf range/monotonicity/value, quantile monotonicity/range, PIT value and missingness), expandverif (valid-time matching, nothing elsewhere) and preservation of dims/metadata/untransformed fields.",
            "Inputs carry the fields each script is documented to handle; observations for expandverif are a function of (valid time, location); times <= 2037.", "DESIGN.md section 5, C20"),
    "C11": ("Hypothesis-generated boundary-heavy datasets; differential against integer civil-calendar bucket arithmetic + partition laws + exhaustive enumeration of date conversions 1900-2100",
            "Axis values and the cases of every slice of all 16 -x dimensions are compared with the model's buckets; slice counts/weighted means add up to the pooled values; csv rows and labels through the real readers; "
            "all 73414 calendar days are enumerated for the conversion functions.",
            DS_NOTE + " Day-of-year numbering after Feb 28 in non-leap years is not judged.", "DESIGN.md section 5, C11"),
    "C12": ("Hypothesis-generated (dataset, metric, axis, output options) cases run through the driver; differential of the printed table against scores computed through the API and, row by row, against the reference model on the cases of the slice the row names; the calendar model for row labels; -f/-acc metamorphic relations",
            "Header, row count/order/labels and every printed cell (6 significant digits csv, 4 text) are compared with the computed scores for all 70 standard metrics and obsfcst; -f content equals stdout content; -acc equals running sums.",
            "The computed score is Standard._get_x_y on a Data object built from the same files (metric correctness is C05/C06/C08).", "DESIGN.md section 5, C12"),
    "C13": ("grammar-based command-line generation (Hypothesis) against an independent model of the documented semantics; option-order and --config metamorphic relations; exhaustive grids for the vector syntax and date ranges; vector fuzzing; enumerated and generated rejection classes; -c/-C together; -obs/-fcst column mappings against files with the columns moved physically",
            "Command lines with random option subsets/orders/values/spellings over generated files must print the table the model predicts; permuting options or moving them into --config files changes nothing; parse_numbers is decided on a full grid; 34 malformed invocations must end in an Error: exit.",
            "Defaults the help text leaves open are never relied on (-x explicit, -b with -r, one event for non-threshold axes); date ranges with positive steps.", "DESIGN.md section 5, C13"),
    "C19": ("enumerated cross product (stratified in quick, complete in thorough) of metric/diagram x -x x output type x variants (lists, single threshold, single file) on hand-built dataset shapes + Hypothesis-generated datasets + every figure kind drawn with suitable arguments into a file; outcome oracle with exception bucketing",
            "Every combination must return normally (writing a non-empty file with -f) or stop with SystemExit(!=0) after an Error: line; unhandled exceptions are bucketed by type@innermost repository frame.",
            "Agg backend, low dpi; cartopy map backgrounds not installed.", "DESIGN.md section 5, C19"),
    "C14": ("Hypothesis-generated datasets with a climatology input (optionally -obsrange); differential against the dictionary model (anomalies at the same coordinates) + metamorphic relation '-c X' vs 'X as extra input' through files, also with -fcst/-obs column overrides",
            "Anomaly values, dropped cases (missing climatology, non-finite quotient), untouched non-obs/fcst fields, and the absence of the climatology from inputs/legend/header are checked for -c and -C.",
            DS_NOTE, "DESIGN.md section 5, C14"),
    "C16": ("Hypothesis-generated datasets x 33 kinds of figure; the rendered matplotlib figure is dumped to plain data and compared, series by series, with the diagram's defining statistics computed by the independent model; partition oracles for binned diagrams",
            "Line/bar/scatter/rectangle coordinates of standard plots, maps, rank/impact views and 28 special diagrams equal the statistics of the common valid cases (exact where the definition is unambiguous, validity predicates where the code chooses thresholds/neighbourhoods/tie rules); "
            "one series per input in command-line order; per-bin counts/percentages account for every valid case, with probabilities exactly 0 and 1.",
            "Explicit -r/-q edges wherever accepted; matplotlib date numbers with the 1970 epoch; decorations (bands, rings, iso-lines, ideal lines) not judged; Agg backend.", "DESIGN.md section 5, C16"),
    "C17": ("Hypothesis-generated subsets/values of 42 appearance options on 15 kinds of figure and five file formats + exhaustive kind x option x value enumeration (one option at a time) + line-style options on 17 kinds of plot; read-back of the figure's properties against the documented effect + metamorphic removal of one cosmetic option",
            "Every option present must show its documented effect in the figure left by verif.driver.run (titles, labels, limits, ticks, rotations, scales, legend, line styles with cycling, font sizes, grid, perfect-score line, aspect, size, margins, annotations) whatever accompanies it; "
            "dropping a purely cosmetic option must not change any other observable; the file has the right format, dpi and pixel size.",
            "Contradictory option pairs are not combined (listed in the evidence assumptions); each command runs with no pre-existing figure, as in a fresh process.", "DESIGN.md section 5, C17"),
    "C18": ("model-based request histories (Hypothesis rule-based state machine and operation sequences + exhaustive sequences up to length 3 + near-collision pairs differing in one request component + metric-computation histories) with invariants after every step: fresh-object differential, snapshots of returned arrays and of input data; repeated commands",
            "After every request of a generated history the result equals that of a freshly built dataset, earlier results and the inputs' arrays are unchanged; all 5655 sequences of length <=3 over a 12-request menu on 3 datasets are enumerated; commands repeated twice print the same output.",
            "In-memory inputs keep arrays as attributes (like verif.input.Text). PIT randomisation with x0/x1 is a listed finding and is generated in its own campaign.", "DESIGN.md section 5, C18"),
    "C05": ("Hypothesis-generated obs/fcst vectors with forced degenerate classes and generated datasets; differential against textbook formulas in exact rational arithmetic; perfect-score and bound metamorphic checks",
            "22 deterministic metrics x 17 aggregators on ~4800 vectors and ~1200 datasets per quick run are compared with independent definitions (Fraction arithmetic, from-scratch rank statistics); undefined cases must be NaN/non-finite without exception; "
            "identical forecasts attain the documented perfect score and nothing beats it; obs/fcst/within and -x obs/-x fcst through the csv code path.",
            "Trusts the textbook definitions written in vlib/model.py; dyadic values so that sums are exact; tolerance 1e-9.", "DESIGN.md section 5, C05"),
    "C06": ("exhaustive enumeration of all 2x2 tables up to a total + Hypothesis vectors/thresholds/bin types; differential against exact Fraction/log formulas; swap and complement metamorphic relations",
            "All 1819 (quick) / 14949 (thorough) tables x 25 metrics through compute_from_abcd and compute_from_obs_fcst; counts a,b,c,d,n from vectors under all eight bin types with thresholds at/between/outside the data; "
            "NaN exactly where undefined, never infinity; swap/complement/perfect relations; csv through files.",
            "Trusts the textbook formulas in vlib/model.py and the documented event semantics (C07).", "DESIGN.md section 5, C06"),
    "C15": ("Hypothesis-generated arrays (1-4 dims, every axis) against pure-Python statistics; generated datasets with irregular grids against a windowed-aggregate model of -T, via API and csv; dimensions stored in any order and selections on the aggregated axis",
            "Each aggregator (14 named + quantile levels) along every axis equals the list statistic; under -T every obs/fcst/ensemble-member value entering a score equals the aggregate over the trailing window (x-h, x] of the same series.",
            "Lead times/times ascending within a file under -T; a missing value in a window makes every statistic but count (and change, which uses the end points) missing; float32 tolerance 2e-6.", "DESIGN.md section 5, C15"),
    "C08": ("Hypothesis-generated probability/outcome vectors and generated probabilistic/ensemble datasets; differential against exact definitions on the model's valid cases; decomposition identity, binning-independent relations between the Brier terms, complement relation, repeated computation on one object and validity predicates for ensemble quantiles (complete and partly missing ensembles)",
            "The Brier family on vectors (exact Fraction arithmetic, BS = REL - RES + UNC with one value per bin), 20 probabilistic metrics through the csv code path on datasets with stored or ensemble-derived thresholds/quantiles under all bin types, "
            "BS(event)=BS(complement), and range/monotonicity/symmetry of ensemble-derived quantiles.",
            "Reliability/resolution terms are not judged for probabilities within float noise of an interior decimal bin edge; ensemble-quantile interpolation is judged by validity only; float32 tolerance for ensemble-derived probabilities.", "DESIGN.md section 5, C08"),
    "C07": ("exhaustive enumeration of value/threshold order relations + Hypothesis random floats against a plain-comparison oracle; generated datasets with values planted on thresholds for the counting diagrams (-hist, freq, cond), quantilecoverage and ensemble-derived event probabilities",
            "Complete enumeration of the order relations a value can have to 1-3 thresholds for all eight bin types (scalar, array, "
            "apply_threshold, 2x2 cells, event probabilities, partition laws) plus random float cases; decides the property on the "
            "finite relation domain and samples it beyond.",
            "Trusts the documented meaning of -b in the help text; thresholds finite and non-decreasing.",
            "DESIGN.md section 5, C07"),
}

NOT_APPLICABLE = {
}

ALL = ["C%02d" % i for i in range(1, 21)]


def main():
    checks = []
    for pid in ALL:
        if pid not in CHECKS:
            continue
        tech, text, note, ref = CHECKS[pid]
        checks.append({
            "property_id": pid,
            "quick_cmd": "%s check.py %s --tier quick" % (PY, pid),
            "thorough_cmd": "%s check.py %s --tier thorough" % (PY, pid),
            "evidence_file": "evidence/%s.json" % pid,
            "replay_cmd_template": "%s check.py %s --replay {path}" % (PY, pid),
            "engine": "pbt",
            "level_claimed": {"category": "exploration", "text": text, "design_ref": ref},
            "level_note": note,
            "technique": tech,
        })
    na = []
    for pid in ALL:
        if pid in CHECKS:
            continue
        na.append({"property_id": pid, "reason": NOT_APPLICABLE.get(pid, "check not built yet in this session (planned: see DESIGN.md section 5); not claimed until its check exists and is quiet on the unchanged tree")})
    m = {
        "version": 1,
        "setup_cmd": "%s -c 'import hypothesis' 2>/dev/null || %s -m pip install --quiet --no-index --find-links /opt/veriftools/wheels --target /verif/.deps hypothesis" % (PY, PY),
        "hooks": {
            "guard": "WFRT_VERIF_VERIF",
            "enable": "no source hooks are needed: checks import verif from /repo's working tree in-process (check.py sets WFRT_VERIF_VERIF=1, PYTHONHASHSEED=0, MPLBACKEND=Agg)",
            "baseline_off_cmd": "cd /repo && env -u WFRT_VERIF_VERIF /venv/bin/python -m pytest -ra -q -p no:cacheprovider --timeout=900 --continue-on-collection-errors",
            "source_commits": [],
            "add_only": True,
        },
        "engines": [
            {"name": "pbt", "path": "check.py", "serves_properties": sorted(CHECKS.keys()),
             "kind_free_text": "Hypothesis-driven and exhaustive generated-input campaigns (vlib/runner.py) against independent reference models (vlib/model.py), sharded over 16 processes; collect-bucket-shrink with replay files"},
        ],
        "checks": checks,
        "not_applicable": na,
        "notes": "All checks: cwd=/verif, exit 0 held / 1 VIOLATION / 2 harness error. Known findings: KNOWN_FINDINGS.txt. fix: commits in /repo are listed there as 'fixed:'.",
    }
    with open(os.path.join(HERE, "MANIFEST.json"), "w") as f:
        json.dump(m, f, indent=1)
        f.write("\n")


if __name__ == "__main__":
    main()
