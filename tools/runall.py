#!/usr/bin/env python
"""Run every registered check (quick or thorough) and validate MANIFEST / evidence against the schemas
when jsonschema is available. usage: runall.py [quick|thorough] [Cxx ...]"""
import json
import os
import subprocess
import sys
import time

HERE = os.path.dirname(os.path.dirname(os.path.abspath(__file__)))


def main(argv):
    tier = "quick"
    ids = []
    for a in argv:
        if a in ("quick", "thorough"):
            tier = a
        else:
            ids.append(a.upper())
    m = json.load(open(os.path.join(HERE, "MANIFEST.json")))
    rc = 0
    for c in m["checks"]:
        if ids and c["property_id"] not in ids:
            continue
        cmd = c["quick_cmd"] if tier == "quick" else c["thorough_cmd"]
        t0 = time.time()
        p = subprocess.run(cmd, shell=True, cwd=HERE, stdout=subprocess.PIPE, stderr=subprocess.STDOUT, universal_newlines=True)
        last = [ln for ln in p.stdout.strip().splitlines() if ln.startswith(c["property_id"])]
        print("%s rc=%d %5.1fs  %s" % (c["property_id"], p.returncode, time.time() - t0, last[-1][:150] if last else p.stdout[-200:]))
        sys.stdout.flush()
        if p.returncode != 0:
            rc = 1
            print(p.stdout[-1500:])
    try:
        import jsonschema
        ms = json.load(open("/root/.vp/MANIFEST.schema.json"))
        es = json.load(open("/root/.vp/EVIDENCE.schema.json"))
        jsonschema.validate(m, ms)
        for c in m["checks"]:
            f = os.path.join(HERE, c["evidence_file"])
            if os.path.exists(f):
                jsonschema.validate(json.load(open(f)), es)
        print("schemas: manifest and evidence files validate")
    except ImportError:
        print("schemas: jsonschema not available in this interpreter (run with python3-vt to validate)")
    return rc


if __name__ == "__main__":
    sys.exit(main(sys.argv[1:]))
