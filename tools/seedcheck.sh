#!/bin/bash
# usage: seedcheck.sh <ID> [worktree] [props-to-run...]   verifies a sub-agent's seeded change and runs the quick check(s) against it
ID=$1; WT=${2:-/tmp/wt_$ID}; shift; shift
PROPS=${@:-$ID}
PY=/venv/bin/python
set -u
cd $WT || exit 2
git -C $WT diff -- verif scripts > /tmp/seed_$ID.diff
if [ ! -s /tmp/seed_$ID.diff ]; then echo "NO SOURCE DIFF in $WT"; exit 2; fi
if ! diff -q <(grep '^[+-][^+-]' /tmp/seed_$ID.diff) <(grep '^[+-][^+-]' $WT/_seed/patch.diff) > /dev/null; then echo "WARNING: worktree diff differs from _seed/patch.diff"; fi
echo "== demo with change"; PYTHONPATH=$WT MPLBACKEND=Agg timeout 300 $PY _seed/demo.py > /tmp/seed_$ID.demo1 2>&1; RC1=$?; tail -3 /tmp/seed_$ID.demo1
# (git stash is shared between worktrees of one repository: reverse-apply the patch instead)
git -C $WT apply -R /tmp/seed_$ID.diff
echo "== demo without change"; PYTHONPATH=$WT MPLBACKEND=Agg timeout 300 $PY _seed/demo.py > /tmp/seed_$ID.demo0 2>&1; RC0=$?; tail -2 /tmp/seed_$ID.demo0
git -C $WT apply /tmp/seed_$ID.diff
echo "demo rc with=$RC1 without=$RC0"
echo "== repo tests with change"; (cd $WT && PYTHONPATH=$WT MPLBACKEND=Agg timeout 900 $PY -m pytest -q -p no:cacheprovider -W ignore verif/tests 2>&1 | tail -1) | tee /tmp/seed_$ID.tests
NAME=${SEED_NAME:-$ID}
mkdir -p /verif/seeded/$NAME
cp /tmp/seed_$ID.diff /verif/seeded/$NAME/patch.diff
cp $WT/_seed/demo.py /verif/seeded/$NAME/demo.py
cp $WT/_seed/meta.json /verif/seeded/$NAME/meta.agent.json 2>/dev/null
echo "== checks against the change (scratch copy of /repo + patch, VERIF_REPO; /repo itself stays untouched)"
COPY=/scratch/seedcopy_${NAME}_$$
rm -rf $COPY; mkdir -p /scratch; rsync -a --exclude .git --exclude __pycache__ /repo/ $COPY/
(cd $COPY && patch -p1 -s < /verif/seeded/$NAME/patch.diff) || { echo "PATCH DOES NOT APPLY"; rm -rf $COPY; exit 2; }
for P in $PROPS; do
  (cd /verif && VERIF_REPO=$COPY VERIF_NOSHRINK=1 VERIF_EVIDENCE_DIR=/tmp/seed_ev VERIF_REPLAY_DIR=/tmp/seed_rp $PY check.py $P --tier quick > /tmp/seed_$ID.$P.out 2>&1; echo "check $P rc=$?"; grep -E "^FAIL|quick:" /tmp/seed_$ID.$P.out | cut -c1-260 | head -6)
done
rm -rf $COPY /tmp/seed_ev /tmp/seed_rp
