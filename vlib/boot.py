"""Process bootstrap shared by every check.

* re-executes the interpreter once with PYTHONHASHSEED=0 and MPLBACKEND=Agg so that a run is
  a pure function of the working tree and VERIF_SEED;
* puts the repository under test ($VERIF_REPO, default /repo) first on sys.path so that the
  *current working tree* is imported (nothing to build for a pure-Python package);
* makes sure Hypothesis is importable, installing it from the offline wheelhouse into
  /verif/.deps when the interpreter does not have it (a restored checkout only contains
  committed files).
"""
import os
import subprocess
import sys

HERE = os.path.dirname(os.path.dirname(os.path.abspath(__file__)))
REPO = os.environ.get("VERIF_REPO", "/repo")
DEPS = os.path.join(HERE, ".deps")
WHEELS = "/opt/veriftools/wheels"
GUARD = "WFRT_VERIF_VERIF"


def reexec_if_needed():
    want = {"PYTHONHASHSEED": "0", "MPLBACKEND": "Agg", GUARD: "1",
            "OMP_NUM_THREADS": "1", "OPENBLAS_NUM_THREADS": "1", "MKL_NUM_THREADS": "1",
            "PYTHONWARNINGS": "ignore"}
    if all(os.environ.get(k) == v for k, v in want.items()):
        return
    env = dict(os.environ)
    env.update(want)
    os.execve(sys.executable, [sys.executable] + sys.argv, env)


def ensure_paths():
    if REPO not in sys.path:
        sys.path.insert(0, REPO)
    if HERE not in sys.path:
        sys.path.insert(1, HERE)
    if os.path.isdir(DEPS) and DEPS not in sys.path:
        sys.path.append(DEPS)


def ensure_hypothesis():
    try:
        import hypothesis  # noqa: F401
        return True
    except ImportError:
        pass
    os.makedirs(DEPS, exist_ok=True)
    cmd = [sys.executable, "-m", "pip", "install", "--quiet", "--no-index", "--find-links", WHEELS,
           "--target", DEPS, "hypothesis"]
    subprocess.call(cmd, stdout=subprocess.DEVNULL, stderr=subprocess.DEVNULL)
    if DEPS not in sys.path:
        sys.path.append(DEPS)
    try:
        import hypothesis  # noqa: F401
        return True
    except ImportError:
        return False


def boot():
    reexec_if_needed()
    ensure_paths()
    if not ensure_hypothesis():
        sys.stderr.write("HARNESS-ERROR: hypothesis is not importable and could not be installed offline\n")
        sys.exit(2)
    import logging
    import warnings
    warnings.filterwarnings("ignore")
    logging.getLogger("matplotlib").setLevel(logging.ERROR)
