"""Comparison helpers shared by the property modules."""
import math

import numpy as np


def close(a, b, tol=1e-9):
    """Float comparison: NaN equals NaN; relative/absolute tolerance tol."""
    if isinstance(b, tuple) and b and b[0] == "ensq":
        # ensemble-derived quantile: validity only (interpolation rule is the implementation's)
        lo, hi = min(b[1]), max(b[1])
        return (not np.isnan(a)) and lo - 1e-6 <= a <= hi + 1e-6
    a = float(a)
    b = float(b)
    if math.isnan(a) or math.isnan(b):
        return math.isnan(a) and math.isnan(b)
    if math.isinf(a) or math.isinf(b):
        return a == b
    return abs(a - b) <= tol * max(1.0, abs(a), abs(b))


def tuples_of(arrays):
    """List of 1D arrays (one per field) -> list of tuples; the single-NaN placeholder -> []."""
    arrays = [np.asarray(a, float).ravel() for a in arrays]
    n = arrays[0].shape[0]
    if any(a.shape[0] != n for a in arrays):
        return None
    if n == 1 and all(np.isnan(a[0]) for a in arrays):
        return []
    return [tuple(float(a[i]) for a in arrays) for i in range(n)]


def _key(t):
    return tuple((x if not isinstance(x, tuple) else float("-inf")) for x in t)


def same_multiset(got, exp, tol=1e-9):
    """Both lists of tuples. Order-insensitive comparison with tolerance."""
    if got is None or len(got) != len(exp):
        return False
    if any(isinstance(x, tuple) for t in exp for x in t):
        # contains validity-only entries: compare after sorting on the exact columns only
        cols = [j for j in range(len(exp[0])) if not any(isinstance(t[j], tuple) for t in exp)] if exp else []
        g = sorted(got, key=lambda t: tuple(t[j] for j in cols))
        e = sorted(exp, key=lambda t: tuple(t[j] for j in cols))
    else:
        g = sorted(got)
        e = sorted(exp)
    for a, b in zip(g, e):
        for x, y in zip(a, b):
            if not close(x, y, tol):
                return False
    return True


def subset_multiset(small, big, tol=1e-9):
    """Every tuple of `small` can be matched to a distinct tuple of `big` (exact columns only)."""
    big = list(big)
    for t in small:
        hit = None
        for k, u in enumerate(big):
            if all(close(x, y, tol) for x, y in zip(t, u)):
                hit = k
                break
        if hit is None:
            return False
        big.pop(hit)
    return True


def arrays_equal(a, b):
    a = np.asarray(a, float)
    b = np.asarray(b, float)
    return a.shape == b.shape and np.array_equal(a, b, equal_nan=True)


def fmt_sig(x, digits):
    return float("%.*g" % (digits, x))


def printed_ok(got, exact, digits, rel=1e-9):
    """Is `got` (a number parsed from printed output) a correct rounding of `exact` to `digits`
    significant digits? Accepts either neighbour at an exact tie (half a unit in the last digit)."""
    got = float(got)
    exact = float(exact)
    if math.isnan(exact) or math.isnan(got):
        return math.isnan(exact) and math.isnan(got)
    if math.isinf(exact) or math.isinf(got):
        return got == exact
    if exact == 0:
        return abs(got) <= 1e-300 or abs(got) < 1e-12
    if abs(got - exact) < 1e-12:
        return True      # both are rounding noise around zero (e.g. -0.0 printed for a reference of 2e-16)
    unit = 10.0 ** (math.floor(math.log10(abs(exact))) - digits + 1)
    return abs(got - exact) <= 0.5 * unit * (1 + 1e-6) + rel * abs(exact)
