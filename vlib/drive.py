"""Run verif.driver.run(argv) in-process and capture stdout / exit status / exception."""
import contextlib
import io
import re
import traceback

ANSI = re.compile(r"\x1b\[[0-9;]*m")


class Result(object):
    def __init__(self):
        self.stdout = ""
        self.exit = None        # SystemExit code or None
        self.exc = None         # exception object
        self.exc_key = None
        self.tb = ""

    @property
    def ok(self):
        return self.exit is None and self.exc is None

    @property
    def clean_error(self):
        """Stopped with an explanatory message and non-zero status."""
        return self.exit not in (None, 0) and "Error:" in self.stdout

    def lines(self):
        """stdout lines without ANSI codes and without warning lines."""
        out = []
        for ln in ANSI.sub("", self.stdout).splitlines():
            if ln.startswith("Warning:"):
                continue
            out.append(ln)
        return out

    def warnings(self):
        return [ln for ln in ANSI.sub("", self.stdout).splitlines() if ln.startswith("Warning:")]

    def error_lines(self):
        return [ln for ln in ANSI.sub("", self.stdout).splitlines() if ln.startswith("Error:")]


def run(args, render=False):
    """args: list of command-line arguments WITHOUT the program name.
    render=True: figures left open by a successful run are drawn (what showing or saving them does); an exception
    while drawing is reported like an exception of the run, keyed <Type>@render:<innermost function>."""
    import verif.driver
    import matplotlib.pyplot as mpl
    from . import runner
    res = Result()
    buf = io.StringIO()
    mpl.close("all")   # every command starts without figures, as a fresh process would
    try:
        with contextlib.redirect_stdout(buf):
            verif.driver.run(["verif"] + [str(a) for a in args])
    except SystemExit as e:
        res.exit = e.code if e.code is not None else 0
    except Exception as e:  # noqa
        res.exc = e
        res.exc_key = runner.repo_frame_key(e) or ("%s@<outside-repo>" % type(e).__name__)
        res.tb = "".join(traceback.format_exception(type(e), e, e.__traceback__))[-1800:]
    res.stdout = buf.getvalue()
    if render and res.ok:
        try:
            for num in mpl.get_fignums():
                mpl.figure(num).canvas.draw()
        except Exception as e:  # noqa
            fr = traceback.extract_tb(e.__traceback__)[-1]
            res.exc = e
            res.exc_key = "%s@render:%s" % (type(e).__name__, fr.name)
            res.tb = "".join(traceback.format_exception(type(e), e, e.__traceback__))[-1800:]
    return res


def close_figures():
    import matplotlib.pyplot as mpl
    mpl.close("all")


def parse_csv(lines):
    """-> header list, rows as lists of strings."""
    lines = [ln for ln in lines if ln.strip() != ""]
    if not lines:
        return [], []
    header = lines[0].split(",")
    rows = [ln.split(",") for ln in lines[1:]]
    return header, rows
