"""Shared dataset-level oracles: verif.data.Data.get_scores against the dictionary model."""
import numpy as np

from . import cmpx, model


def fields_label(F):
    return "+".join(f[0] for f in F)


def loose_cases(ds, F, i, axis, k):
    """Valid cases of an Obs-without-Fcst request under a climatology when only the requested
    fields and the climatology forecast itself (not the other inputs' forecasts) are required."""
    sl = ds.slices(axis)
    pred = sl[k][1]
    out = []
    allin = ds.ins + [ds.clim]
    rng = ds.opts.get("obs_range")
    for c in ds.coords():
        if not pred(c):
            continue
        cv = ds.clim.value(("fcst",), c)
        if cv is None:
            continue
        vals = []
        ok = True
        for f in F:
            if f[0] == "obs":
                vs = [m.value(f, c) for m in allin if m.has_obs]
                if not vs or any(v is None for v in vs):
                    ok = False
                    break
                v = allin[model.obs_source(ds.ins, ds.clim, i)].value(f, c)
                if rng is not None and not (rng[0] <= v <= rng[1]):
                    ok = False
                    break
                if ds.opts.get("clim_type", "subtract") == "subtract":
                    v = v - cv
                else:
                    if cv == 0:
                        ok = False
                        break
                    v = v / cv
            else:
                if any(m.value(f, c) is None for m in allin):
                    ok = False
                    break
                v = ds.ins[i].value(f, c)
            vals.append(v)
        if ok:
            out.append(tuple(vals))
    return out


def tol_for(F):
    return 2e-6 if any(f[0] in ("thr",) for f in F) else 1e-9


def check_slices(ctx, pid, spec, ds, data, menu, axes, extra=None):
    """For every request x axis x slice x input: the multiset of value tuples returned by get_scores
    equals the model's valid cases (both directions)."""
    from . import mat
    n_in = len(spec["inputs"])
    has_clim = bool(spec.get("clim"))
    extra = extra or {}
    for F in menu:
        vF = [mat.vfield(f) for f in F]
        tol = tol_for(F)
        obs_only_clim = has_clim and any(f[0] == "obs" for f in F) and not any(f[0] == "fcst" for f in F)
        flab = fields_label(F)
        ctx.label("req=" + flab)
        for axis in axes:
            vax = mat.vaxis(axis)
            nsl = ds.n_slices(axis)
            got_n = data.get_axis_size(vax)
            if got_n != nsl:
                ctx.fail("%s/slices/%s" % (pid, axis), dict(extra, spec=spec, axis=axis), "axis %s has %d slices, model %d" % (axis, got_n, nsl))
                continue
            for k in range(nsl):
                counts = []
                for i in range(n_in):
                    got = data.get_scores(vF, i, vax, k)
                    got_t = cmpx.tuples_of(got)
                    exp = ds.cases(F, i, axis, k)
                    ctx.evals += 1
                    sub = dict(extra, spec=spec, fields=F, input=i, axis=axis, slice=k)
                    if got_t is None:
                        ctx.fail("%s/cases/ragged" % pid, sub, "fields returned with different lengths")
                        continue
                    counts.append(len(got_t))
                    if obs_only_clim:
                        loose = loose_cases(ds, F, i, axis, k)
                        if not cmpx.subset_multiset(got_t, loose, tol):
                            ctx.fail("%s/cases/invalid-used/%s" % (pid, flab), sub, "a returned case is not valid in every file: got %r, valid %r" % (got_t[:6], loose[:6]))
                        continue
                    if not cmpx.same_multiset(got_t, exp, tol):
                        extra_used = not cmpx.subset_multiset(got_t, exp, tol)
                        key = "%s/cases/%s/%s" % (pid, "invalid-used" if extra_used else "valid-dropped", flab)
                        ctx.fail(key, sub, "input %d axis %s slice %d: got %d cases %r, model %d cases %r" % (i, axis, k, len(got_t), sorted(got_t)[:6], len(exp), sorted(exp, key=cmpx._key)[:6]))
                if len(set(counts)) > 1:
                    ctx.fail("%s/same-cases/count" % pid, dict(extra, spec=spec, fields=F, axis=axis, slice=k),
                             "inputs are scored on different numbers of cases: %r" % counts)


def check_all_axis(ctx, pid, spec, ds, menu, make_fresh, extra=None):
    """axis=All: cell [a,b,c] holds the model value of (times[a], leadtimes[b], ids[c]) or NaN; the
    valid masks and the observation arrays are identical for all inputs. One fresh Data per request."""
    import verif.axis
    from . import mat
    n_in = len(spec["inputs"])
    has_clim = bool(spec.get("clim"))
    extra = extra or {}
    for F in menu:
        vF = [mat.vfield(f) for f in F]
        masks = []
        obs_arrays = []
        tol = tol_for(F)
        obs_only_clim = has_clim and any(f[0] == "obs" for f in F) and not any(f[0] == "fcst" for f in F)
        for i in range(n_in):
            fresh = make_fresh()
            got = fresh.get_scores(vF, i, verif.axis.All(), None)
            ctx.evals += 1
            g = ds.grid(F, i)
            shape = (len(ds.times), len(ds.leads), len(ds.ids))
            sub = dict(extra, spec=spec, fields=F, input=i, axis="all")
            if any(np.asarray(a).shape != shape for a in got):
                ctx.fail("%s/all/shape" % pid, sub, "3D result has shape %r, model dims %r" % ([np.asarray(a).shape for a in got], shape))
                break
            masks.append(~np.isnan(got[0]))
            if F[0][0] == "obs":
                obs_arrays.append(np.array(got[0]))
            if obs_only_clim:
                continue
            bad = None
            for a, t in enumerate(ds.times):
                for b, l in enumerate(ds.leads):
                    for c, s in enumerate(ds.ids):
                        ev = g[(t, l, s)]
                        for fi in range(len(F)):
                            gv = got[fi][a, b, c]
                            if ev is None:
                                if not np.isnan(gv):
                                    bad = ("invalid-used", (t, l, s), gv, None)
                            elif not cmpx.close(gv, ev[fi], tol):
                                bad = ("valid-dropped" if np.isnan(gv) else "wrong-value", (t, l, s), gv, ev[fi])
            if bad:
                ctx.fail("%s/all/%s/%s" % (pid, bad[0], fields_label(F)), sub, "cell %r: got %r model %r" % (bad[1], bad[2], bad[3]))
        if len(masks) == n_in and n_in > 1:
            if any(not np.array_equal(m, masks[0]) for m in masks[1:]):
                ctx.fail("%s/same-cases/mask" % pid, dict(extra, spec=spec, fields=F), "valid masks differ between inputs for axis=All")
            if len(obs_arrays) == n_in and not any(d.get("own_obs") for d in spec["inputs"]) and any(not cmpx.arrays_equal(o, obs_arrays[0]) for o in obs_arrays[1:]):
                ctx.fail("%s/same-cases/obs" % pid, dict(extra, spec=spec, fields=F), "observation arrays differ between inputs")


def permute_input(d, pt, pl, ps):
    """Input dict with its dimension entries listed in another order (data moved accordingly)."""
    out = dict(d)
    out["ti"] = [d["ti"][i] for i in pt]
    out["li"] = [d["li"][i] for i in pl]
    out["si"] = [d["si"][i] for i in ps]

    def perm(nested):
        if nested is None:
            return None
        return [[[nested[a][b][c] for c in ps] for b in pl] for a in pt]
    for k in ("obs", "fcst", "pit", "cdf", "qs", "ens"):
        if d.get(k) is not None:
            out[k] = perm(d[k])
    if d.get("other"):
        out["other"] = dict((k, perm(v)) for k, v in d["other"].items())
    return out
