"""Dump the current matplotlib figure (left behind by verif.driver.run under Agg) to plain data."""
import numpy as np


def _f(x):
    try:
        return float(x)
    except Exception:
        return x


def color(c):
    import matplotlib.colors as mc
    try:
        return [round(v, 4) for v in mc.to_rgba(c)]
    except Exception:
        return str(c)


def dump_axes(ax):
    import matplotlib.collections
    import matplotlib.patches
    d = {}
    d["title"] = ax.get_title()
    d["title_fs"] = _f(ax.title.get_fontsize())
    d["xlabel"] = ax.get_xlabel()
    d["ylabel"] = ax.get_ylabel()
    d["xlabel_fs"] = _f(ax.xaxis.label.get_fontsize())
    d["ylabel_fs"] = _f(ax.yaxis.label.get_fontsize())
    d["xlim"] = [float(v) for v in ax.get_xlim()]
    d["ylim"] = [float(v) for v in ax.get_ylim()]
    d["xscale"] = ax.get_xscale()
    d["yscale"] = ax.get_yscale()
    d["aspect"] = ax.get_aspect()
    d["xticks"] = [float(v) for v in ax.get_xticks()]
    d["yticks"] = [float(v) for v in ax.get_yticks()]
    d["xticklabels"] = [{"text": t.get_text(), "rot": _f(t.get_rotation()), "fs": _f(t.get_fontsize())} for t in ax.get_xticklabels()]
    d["yticklabels"] = [{"text": t.get_text(), "rot": _f(t.get_rotation()), "fs": _f(t.get_fontsize())} for t in ax.get_yticklabels()]
    lines = []
    for ln in ax.get_lines():
        x = np.asarray(ln.get_xdata(orig=True), float) if len(ln.get_xdata()) else np.array([])
        y = np.asarray(ln.get_ydata(orig=True), float) if len(ln.get_ydata()) else np.array([])
        lines.append({"label": ln.get_label(), "x": x.tolist(), "y": y.tolist(), "color": color(ln.get_color()), "ls": ln.get_linestyle(),
                      "lw": _f(ln.get_linewidth()), "marker": ln.get_marker(), "ms": _f(ln.get_markersize()), "alpha": ln.get_alpha()})
    d["lines"] = lines
    bars = []
    for p in ax.patches:
        if isinstance(p, matplotlib.patches.Rectangle):
            bars.append({"x": _f(p.get_x()), "y": _f(p.get_y()), "w": _f(p.get_width()), "h": _f(p.get_height()), "fc": color(p.get_facecolor())})
    d["bars"] = bars
    colls = []
    for c in ax.collections:
        if isinstance(c, matplotlib.collections.PathCollection):
            arr = c.get_array()
            colls.append({"offsets": np.asarray(c.get_offsets(), float).tolist(), "sizes": np.asarray(c.get_sizes(), float).tolist(),
                          "array": None if arr is None else np.asarray(arr, float).tolist(), "clim": [_f(v) for v in c.get_clim()],
                          "fc": [color(x) for x in c.get_facecolors()][:50], "label": c.get_label()})
    d["scatters"] = colls
    d["texts"] = [{"text": t.get_text(), "x": _f(t.get_position()[0]), "y": _f(t.get_position()[1]), "fs": _f(t.get_fontsize())} for t in ax.texts]
    leg = ax.get_legend()
    if leg is None:
        d["legend"] = None
    else:
        d["legend"] = {"texts": [t.get_text() for t in leg.get_texts()], "fs": [_f(t.get_fontsize()) for t in leg.get_texts()], "loc": leg._loc}
    gx = ax.xaxis.get_gridlines()
    gy = ax.yaxis.get_gridlines()
    d["grid"] = {"x_visible": any(g.get_visible() for g in gx), "y_visible": any(g.get_visible() for g in gy),
                 "color": color(gx[0].get_color()) if gx else None, "ls": gx[0].get_linestyle() if gx else None, "lw": _f(gx[0].get_linewidth()) if gx else None}
    d["is_colorbar"] = hasattr(ax, "_colorbar") or ax.get_label() == "<colorbar>"
    return d


def dump_current():
    import matplotlib.pyplot as mpl
    fig = mpl.gcf()
    sp = fig.subplotpars
    return {"size": [float(v) for v in fig.get_size_inches()], "dpi": float(fig.dpi),
            "subplotpars": {"left": sp.left, "right": sp.right, "top": sp.top, "bottom": sp.bottom},
            "axes": [dump_axes(ax) for ax in fig.get_axes()]}
