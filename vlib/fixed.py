"""Deterministic hand-built dataset shapes (pure functions of constants) used by the sweeps."""


def _lcg(seed):
    state = [seed * 2654435761 % (2 ** 32) or 1]

    def nxt(n):
        state[0] = (1103515245 * state[0] + 12345) % (2 ** 31)
        return (state[0] >> 8) % n
    return nxt


def build(name, nT=3, nL=3, nS=3, n_in=2, flavor="det", miss_every=7, all_missing_loc=False, seed=1, members=3, degenerate=False):
    rnd = _lcg(seed)
    times = [946684800 + 86400 * 15 * d + 3600 * 6 * (d % 2) for d in range(nT)]      # Jan 2000, every 15 days, 00/06 UTC
    leads = [0.0, 6.0, 12.0, 24.0, 30.0, 48.0][:nL]
    locs = [{"id": i * 3 + 1, "lat": 50.0 + 2.5 * i, "lon": -120.0 + 7.25 * i, "elev": 10.0 + 150.5 * i} for i in range(nS)]
    truth = [[[(rnd(41) - 20) / 4.0 for _ in range(nS)] for _ in range(nL)] for _ in range(nT)]
    if degenerate:
        # zero-variance slices: the first location observes the same value every time (a dry station), the first lead time ditto
        truth = [[[1.0 if (c == 0 or b == 0) else truth[a][b][c] for c in range(nS)] for b in range(nL)] for a in range(nT)]
    thresholds = [0.0, 1.0, 2.5]
    quantiles = [0.1, 0.5, 0.9]
    inputs = []
    for i in range(n_in):
        def miss(a, b, c, off):
            if all_missing_loc and c == nS - 1 and i == n_in - 1:
                return True
            return miss_every and (a * 5 + b * 3 + c * 7 + off + i) % miss_every == 0 and (nT * nL * nS > 2)
        d = {"name": "%s_f%d" % (name, i), "ti": list(range(nT)), "li": list(range(nL)), "si": list(range(nS))}
        d["obs"] = [[[None if miss(a, b, c, 1) else truth[a][b][c] for c in range(nS)] for b in range(nL)] for a in range(nT)]
        d["fcst"] = [[[None if miss(a, b, c, 2) else truth[a][b][c] + (rnd(17) - 8) / 4.0 for c in range(nS)] for b in range(nL)] for a in range(nT)]
        if degenerate:
            # ... the last location is forecast perfectly by every file, and the first file forecasts one value at the second location
            d["fcst"] = [[[None if d["fcst"][a][b][c] is None else (truth[a][b][c] if c == nS - 1 else (2.0 if (c == 1 and i == 0) else d["fcst"][a][b][c]))
                           for c in range(nS)] for b in range(nL)] for a in range(nT)]
        if flavor in ("prob", "full"):
            d["thresholds"] = list(thresholds)
            d["quantiles"] = list(quantiles)
            cdf = []
            qs = []
            pit = []
            for a in range(nT):
                ca, qa, pa = [], [], []
                for b in range(nL):
                    cb, qb, pb = [], [], []
                    for c in range(nS):
                        if miss(a, b, c, 3):
                            cb.append([None] * 3)
                            qb.append([None] * 3)
                            pb.append(None)
                        else:
                            cb.append(sorted(rnd(9) / 8.0 for _ in range(3)))
                            ctr = d["fcst"][a][b][c] if d["fcst"][a][b][c] is not None else truth[a][b][c]
                            w = (1 + rnd(8)) / 4.0
                            qb.append([ctr - w, ctr, ctr + w])
                            pb.append(rnd(17) / 16.0)
                    ca.append(cb)
                    qa.append(qb)
                    pa.append(pb)
                cdf.append(ca)
                qs.append(qa)
                pit.append(pa)
            d["cdf"], d["qs"], d["pit"] = cdf, qs, pit
        if flavor in ("ens", "full"):
            d["members"] = members
            d["ens"] = [[[[None] * members if miss(a, b, c, 4) else [truth[a][b][c] + (rnd(25) - 12) / 4.0 for _ in range(members)]
                          for c in range(nS)] for b in range(nL)] for a in range(nT)]
        if flavor in ("det", "full"):
            d["other"] = {"aux": [[[None if miss(a, b, c, 5) else (rnd(41) - 20) / 4.0 for c in range(nS)] for b in range(nL)] for a in range(nT)]}
        inputs.append(d)
    return {"times": times, "leadtimes": leads, "locs": locs, "var": {"name": "Precip", "units": "mm", "x0": None, "x1": None},
            "inputs": inputs, "clim": None}


SHAPES = {
    "det2": dict(flavor="det", n_in=2),
    "det1": dict(flavor="det", n_in=1, seed=2),
    "prob2": dict(flavor="prob", n_in=2, seed=3),
    "ens1": dict(flavor="ens", n_in=1, seed=4),
    "full3": dict(flavor="full", n_in=3, seed=5, nT=4, nL=3, nS=4),
    "full2": dict(flavor="full", n_in=2, seed=6),
    "full2-single-time": dict(flavor="full", n_in=2, nT=1, seed=7),
    "full2-single-loc": dict(flavor="full", n_in=2, nS=1, seed=8),
    "full2-single-lead": dict(flavor="full", n_in=2, nL=1, seed=9),
    "full2-allmissing-loc": dict(flavor="full", n_in=2, all_missing_loc=True, seed=10),
    "full2-nomissing": dict(flavor="full", n_in=2, miss_every=0, seed=11, nT=4, nL=4, nS=3),
    "full2-single-time-lead": dict(flavor="full", n_in=2, nT=1, nL=1, nS=3, seed=12, miss_every=0),
    "full2-one-case": dict(flavor="full", n_in=2, nT=1, nL=1, nS=1, seed=13, miss_every=0),
    "full2-more-leads-than-times": dict(flavor="full", n_in=2, nT=2, nL=5, nS=3, seed=15, miss_every=13),
    "full2-zero-variance": dict(flavor="full", n_in=2, nT=4, nL=3, nS=4, seed=14, miss_every=11, degenerate=True),
}


def get(name):
    return build(name, **SHAPES[name])
