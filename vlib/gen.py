"""Hypothesis strategies. Every strategy yields plain JSON-able data (dicts/lists/numbers/None) so
that a whole case shrinks as one value and can be written to a replay file.

DatasetSpec (dict):
  times, leadtimes, locs        universes (lists); inputs refer to them by index
  var                           {"name","units","x0","x1"}
  inputs: [ {name, ti, li, si,  index lists in FILE ORDER
             obs|None, fcst|None, pit|None        nested [t][l][s] lists, None = missing value
             thresholds, cdf    stored thresholds and [t][l][s][k] cumulative probabilities
             quantiles, qs      stored quantile levels and [t][l][s][k] values
             members, ens       ensemble [t][l][s][m]
             other: {name: nested} } ]
  clim: None | input dict
Values lie on a dyadic grid (multiples of 1/4, |v| <= 16) so float sums are exact.
"""
from hypothesis import strategies as st

from . import model

INTERESTING_DAYS = [19700101, 19991231, 20000228, 20000229, 20000301, 20010228, 20010301, 20121230, 20121231,
                    20130101, 20161231, 20170101, 20371231, 20991231, 20240229, 20231231, 20240101]
HOURS = [0, 6, 12, 18, 23]
LEADTIMES = [0, 1, 1.5, 3, 6, 12, 23, 24, 25, 36, 47.5, 48, 72, 240]
LOC_IDS = [0, 1, 2, 3, 5, 7, 10, 42, 100, 1000, 99999]
TH_POOL = [-2.0, -0.5, 0.0, 0.25, 1.0, 2.5, 5.0]
Q_POOL = [0.0, 0.1, 0.25, 0.5, 0.75, 0.9, 1.0]


def time_pool(boundary_heavy=True, half_hours=False, before_2037=False, pre1970=False):
    pool = [d for d in INTERESTING_DAYS if d < 20370101] if before_2037 else INTERESTING_DAYS
    if pre1970:
        # initialisation times before the unix epoch (negative unix times): reanalyses and station records go back that far
        pool = pool + [19691231, 19691230, 19600229, 19000101, 19691231]
    days = st.sampled_from(pool).map(lambda d: model.date_to_unix(d) // 86400)
    anyday = st.integers(-25567 if pre1970 else 0, 24000 if before_2037 else 47481)  # (1900-01-01 |) 1970-01-01 .. 2035 / 2099-12-31
    day = st.one_of(days, days, anyday) if boundary_heavy else anyday
    hours = HOURS + ([0.5, 13.5, 22.25, 6.25, 12.75, 23.5] if half_hours else [])
    return st.tuples(day, st.sampled_from(hours)).map(lambda dh: int(dh[0] * 86400 + dh[1] * 3600))


def val(lo=-40, hi=40):
    return st.integers(lo, hi).map(lambda i: i / 4.0)


MISSING = st.sampled_from([False] * 6 + [True])


def grid(draw, shape, elem):
    n = 1
    for s in shape:
        n *= s
    flat = draw(st.lists(elem, min_size=n, max_size=n))
    return flat


def nest(flat, shape):
    if len(shape) == 1:
        return list(flat[:shape[0]])
    step = 1
    for s in shape[1:]:
        step *= s
    return [nest(flat[i * step:(i + 1) * step], shape[1:]) for i in range(shape[0])]


def masked(draw, shape, elem, mode):
    """Nested list of `elem` draws with None for missing according to the mask mode."""
    n = 1
    for s in shape:
        n *= s
    vals = draw(st.lists(elem, min_size=n, max_size=n))
    if mode == "none":
        miss = [False] * n
    elif mode == "all":
        miss = [True] * n
    elif mode == "one":
        k = draw(st.integers(0, n - 1))
        miss = [i == k for i in range(n)]
    elif mode == "slice":
        # a whole slice along one of the first three dimensions
        ax = draw(st.integers(0, min(2, len(shape) - 1)))
        k = draw(st.integers(0, shape[ax] - 1))
        miss = []
        strides = []
        step = 1
        for s in reversed(shape):
            strides.insert(0, step)
            step *= s
        for i in range(n):
            miss.append((i // strides[ax]) % shape[ax] == k)
        extra = draw(st.lists(MISSING, min_size=n, max_size=n))
        miss = [a or b for a, b in zip(miss, extra)]
    else:
        miss = draw(st.lists(MISSING, min_size=n, max_size=n))
    flat = [None if m else v for v, m in zip(vals, miss)]
    return nest(flat, shape)


MASK_MODES = st.sampled_from(["dense"] * 8 + ["none"] * 4 + ["one"] * 3 + ["slice"] * 4 + ["all"])
MASK_MODES_NOALL = st.sampled_from(["dense", "dense", "dense", "none", "one", "slice"])


@st.composite
def dataset(draw, max_inputs=4, min_inputs=1, clim="maybe", flavor="det", core_max=3, extra_max=2,
            allow_drop=True, allow_obsless=True, boundary_heavy=True, ordered_dims=False, max_members=4,
            var_x=False, allow_all_missing=True, half_hours=False, other_pool=("temp", "wind", "zscore"), per_input_layout=True, before_2037=False, own_obs=False, clim_other=False, allow_crossing=False, pre1970=False):
    """flavor: 'det' (obs, fcst) | 'prob' (+cdf, quantiles, pit) | 'ens' (+ensemble) | 'full' (all) | 'mix' """
    if flavor == "mix":
        flavor = draw(st.sampled_from(["det", "det", "prob", "ens", "full"]))
    modes = MASK_MODES if allow_all_missing else MASK_MODES_NOALL
    # universes: core first, extras after
    nTc = draw(st.integers(1, core_max))
    nLc = draw(st.integers(1, core_max))
    nSc = draw(st.integers(1, core_max))
    nTe = draw(st.integers(0, extra_max))
    nLe = draw(st.integers(0, extra_max))
    nSe = draw(st.integers(0, extra_max))
    times = draw(st.lists(time_pool(boundary_heavy, half_hours, before_2037, pre1970), min_size=nTc + nTe, max_size=nTc + nTe, unique=True))
    leads = draw(st.lists(st.sampled_from(LEADTIMES), min_size=nLc + nLe, max_size=nLc + nLe, unique=True))
    ids = draw(st.lists(st.sampled_from(LOC_IDS), min_size=nSc + nSe, max_size=nSc + nSe, unique=True))
    if ordered_dims:
        times = sorted(times)
        leads = sorted(leads)
    locs = []
    for i in ids:
        locs.append({"id": i,
                     "lat": draw(st.integers(-360, 360)) / 4.0,
                     "lon": draw(st.integers(-720, 720)) / 4.0,
                     "elev": draw(st.integers(-200, 8000)) / 2.0})
    T, L, S = len(times), len(leads), len(locs)
    truth = nest(grid(draw, (T, L, S), val()), (T, L, S))
    n_inputs = draw(st.sampled_from([n for n in [1, 2, 2, 2, 3, 3, 4, 4] if min_inputs <= n <= max_inputs]))
    has_clim = (clim is True) or (clim == "maybe" and draw(st.sampled_from([False, False, False, True])))
    thresholds = quantiles = []
    members = 0
    if flavor in ("prob", "full"):
        thresholds = sorted(draw(st.lists(st.sampled_from(TH_POOL), min_size=1, max_size=3, unique=True)))
        quantiles = sorted(draw(st.lists(st.sampled_from(Q_POOL), min_size=1, max_size=3, unique=True)))
    if flavor in ("ens", "full"):
        members = draw(st.integers(1, max_members))
    other_names = draw(st.lists(st.sampled_from(list(other_pool)), max_size=1 if len(other_pool) <= 3 else 2, unique=True)) if flavor in ("det", "full") else []

    def one_input(name, is_clim=False, force_obs=False):
        def pick(core_n, extra_n):
            idx = list(range(core_n))
            for e in range(extra_n):
                if draw(st.booleans()):
                    idx.append(core_n + e)
            if allow_drop and len(idx) > 1 and draw(st.sampled_from([False] * 19 + [True])):
                idx.pop(draw(st.integers(0, core_n - 1)))
            if ordered_dims:
                return sorted(idx)
            return list(draw(st.permutations(idx)))
        ti, li, si = pick(nTc, nTe), pick(nLc, nLe), pick(nSc, nSe)
        shape = (len(ti), len(li), len(si))
        d = {"name": name, "ti": ti, "li": li, "si": si}
        with_obs = force_obs or not allow_obsless or draw(st.sampled_from([True, True, True, False]))
        if with_obs:
            mode = draw(modes)
            m = masked(draw, shape, st.just(0), mode)
            d["obs"] = [[[None if m[a][b][c] is None else truth[ti[a]][li[b]][si[c]]
                          for c in range(shape[2])] for b in range(shape[1])] for a in range(shape[0])]
        else:
            d["obs"] = None
        d["fcst"] = masked(draw, shape, val(), draw(modes))
        if thresholds:
            # own layout: the common thresholds plus own extras, in the file's own order
            extras = [t for t in TH_POOL if t not in thresholds]
            own = list(thresholds) + [t for t in extras if per_input_layout and draw(st.sampled_from([False, False, True]))]
            own = list(draw(st.permutations(own))) if per_input_layout else own
            d["thresholds"] = own
            K = len(own)
            rank = dict((t, r) for r, t in enumerate(sorted(own)))
            raw = masked(draw, shape, st.lists(st.integers(0, 8), min_size=K, max_size=K), draw(modes))
            cdf = []
            for a in range(shape[0]):
                pa = []
                for b in range(shape[1]):
                    pb = []
                    for c in range(shape[2]):
                        cell = raw[a][b][c]
                        if cell is None:
                            pb.append([None] * K)
                        else:
                            sv = [v / 8.0 for v in sorted(cell)]     # non-decreasing in the threshold
                            pb.append([sv[rank[t]] for t in own])
                    pa.append(pb)
                cdf.append(pa)
            d["cdf"] = cdf
            d["pit"] = masked(draw, shape, st.integers(0, 16).map(lambda i: i / 16.0), draw(modes))
        if quantiles:
            extras = [q for q in Q_POOL if q not in quantiles]
            own = list(quantiles) + [q for q in extras if per_input_layout and draw(st.sampled_from([False, False, True]))]
            own = list(draw(st.permutations(own))) if per_input_layout else own
            d["quantiles"] = own
            Q = len(own)
            rank = dict((q, r) for r, q in enumerate(sorted(own)))
            raw = masked(draw, shape, st.lists(st.integers(-40, 40), min_size=Q, max_size=Q), draw(modes))
            # stored quantiles of real files may cross (quantile regression does that); verif takes them as they are
            crossing = allow_crossing and Q > 1 and draw(st.sampled_from([False, False, True]))
            if crossing:
                d["crossing_quantiles"] = True
            qs = []
            for a in range(shape[0]):
                pa = []
                for b in range(shape[1]):
                    pb = []
                    for c in range(shape[2]):
                        cell = raw[a][b][c]
                        if cell is None:
                            pb.append([None] * Q)
                        else:
                            sv = [v / 4.0 for v in (cell if crossing else sorted(cell))]     # non-decreasing in the level unless 'crossing'
                            pb.append([sv[rank[q]] for q in own])
                    pa.append(pb)
                qs.append(pa)
            d["qs"] = qs
        if members:
            own_m = draw(st.integers(1, max_members)) if per_input_layout else members   # member counts may differ between files
            d["members"] = own_m
            d["ens"] = masked(draw, shape + (own_m,), val(), draw(modes))
        if other_names and (clim_other or not is_clim):
            d["other"] = dict((nm, masked(draw, shape, val(), draw(modes))) for nm in other_names)
        return d

    inputs = [one_input("f%d" % k, force_obs=(k == 0 and not allow_obsless)) for k in range(n_inputs)]
    if not any(d["obs"] is not None for d in inputs):
        k = draw(st.integers(0, n_inputs - 1))
        shape = (len(inputs[k]["ti"]), len(inputs[k]["li"]), len(inputs[k]["si"]))
        m = masked(draw, shape, st.just(0), draw(modes))
        d = inputs[k]
        d["obs"] = [[[None if m[a][b][c] is None else truth[d["ti"][a]][d["li"][b]][d["si"][c]]
                      for c in range(shape[2])] for b in range(shape[1])] for a in range(shape[0])]
    if own_obs and n_inputs > 1:
        # files that disagree about the observations (accepted by the program: each file is then scored against
        # its own column); only used by checks whose oracle is differential (history independence)
        for d in inputs[1:]:
            if d["obs"] is not None and draw(st.sampled_from([False, False, True])):
                d["obs"] = [[[None if v is None else draw(val()) for v in row] for row in pl] for pl in d["obs"]]
                d["own_obs"] = True
    spec = {"times": times, "leadtimes": [float(l) for l in leads], "locs": locs,
            "var": {"name": "Temp", "units": "K", "x0": None, "x1": None},
            "inputs": inputs, "clim": None}
    if var_x and draw(st.booleans()):
        spec["var"]["x0"] = draw(st.sampled_from([None, 0.0, 0.25]))
        spec["var"]["x1"] = draw(st.sampled_from([None, 5.0, 10.0]))
    if has_clim:
        spec["clim"] = one_input("clim", is_clim=True)
    return spec


def input_fields(spec):
    """Menu of model field tuples that every input of the spec can serve."""
    d0 = spec["inputs"][0]
    menu = [("fcst",)]
    menu.append(("obs",))
    if all(d.get("pit") is not None for d in spec["inputs"]) and not spec.get("clim"):
        menu.append(("pit",))
    return menu


AXES_FOR_SCORES = ["no", "time", "leadtime", "location", "year", "month", "week", "day", "timeofday", "dayofyear",
                   "dayofmonth", "monthofyear", "leadtimeday", "lat", "lon", "elev"]


def common_menu(spec):
    """Request menu (lists of model field tuples) valid for every input (and the climatology)."""
    allin = spec["inputs"] + ([spec["clim"]] if spec.get("clim") else [])
    menu = [[("obs",), ("fcst",)], [("obs",)], [("fcst",)], [("fcst",), ("obs",)]]
    if all(d.get("pit") is not None for d in allin):
        menu.append([("pit",)])
    th = None
    for d in allin:
        s = set(d.get("thresholds") or [])
        th = s if th is None else th & s
    th = sorted(th or [])
    if th:
        menu.append([("obs",), ("thr", th[0])])
        if len(th) > 1:
            menu.append([("obs",), ("thr", th[0]), ("thr", th[-1])])
    qs = None
    for d in allin:
        s = set(d.get("quantiles") or [])
        qs = s if qs is None else qs & s
    qs = sorted(qs or [])
    if qs:
        menu.append([("obs",), ("q", qs[0])])
        if len(qs) > 1:
            menu.append([("q", qs[0]), ("q", qs[-1]), ("fcst",), ("obs",)])
    if all(d.get("ens") is not None for d in allin):
        mem = min(d["members"] for d in allin)
        menu.append([("ens", 0)])
        if mem > 1:
            menu.append([("obs",), ("ens", mem - 1)])
        # threshold not stored in any file -> probability from the ensemble
        menu.append([("obs",), ("thr", 0.625)])
        # quantile level not stored in any file -> derived from the ensemble members
        menu.append([("q", 0.3)])
        menu.append([("ens", mem - 1)])
    others = None
    for d in allin:
        s = set((d.get("other") or {}).keys())
        others = s if others is None else others & s
    for nm in sorted(others or []):
        menu.append([("other", nm)])
        menu.append([("obs",), ("other", nm)])
    return menu
