"""Materialise a DatasetSpec (plain dict, see gen.py) as
   * an in-memory verif.input.Input subclass (fast path),
   * a verif text file,
   * a verif NetCDF file.
"""
import os

import numpy as np

import verif.axis
import verif.field
import verif.input
import verif.location
import verif.variable

NAN = float("nan")


def arr(nested, dtype=float):
    """Nested lists with None for missing -> float array with NaN."""
    if nested is None:
        return None

    def conv(x):
        if isinstance(x, list):
            return [conv(v) for v in x]
        return NAN if x is None else x
    return np.array(conv(nested), dtype)


class MemInput(verif.input.Input):
    """In-memory input that populates every attribute verif.input.Input documents. Arrays are held
    as attributes (like verif.input.Text does), so an in-place modification by verif is observable."""
    description = "in-memory input of the verification harness"

    def __init__(self, d, spec):
        self.fullname = d["name"]
        self.times = np.array([spec["times"][i] for i in d["ti"]], float)
        self.leadtimes = np.array([spec["leadtimes"][i] for i in d["li"]], float)
        self.locations = [verif.location.Location(loc["id"], loc["lat"], loc["lon"], loc["elev"])
                          for loc in (spec["locs"][i] for i in d["si"])]
        shape = (len(self.times), len(self.leadtimes), len(self.locations))
        self.obs = arr(d.get("obs"))
        self.fcst = arr(d.get("fcst"))
        self.pit = arr(d.get("pit"))
        self.thresholds = np.array(d.get("thresholds") or [], float)
        self.quantiles = np.array(d.get("quantiles") or [], float)
        self.threshold_scores = arr(d.get("cdf")) if d.get("cdf") is not None else np.zeros(shape + (0,))
        self.quantile_scores = arr(d.get("qs")) if d.get("qs") is not None else np.zeros(shape + (0,))
        self.ensemble = arr(d.get("ens")) if d.get("ens") is not None else None
        self._other = dict((k, arr(v)) for k, v in (d.get("other") or {}).items())
        self.other_fields = sorted(self._other.keys())
        var = spec.get("var") or {}
        self.variable = verif.variable.Variable(var.get("name", "T"), var.get("units", "K"),
                                                x0=var.get("x0"), x1=var.get("x1"))

    def other_score(self, name):
        return self._other[name]

    def snapshot(self):
        snap = {"times": self.times.copy(), "leadtimes": self.leadtimes.copy()}
        for k in ("obs", "fcst", "pit", "ensemble", "threshold_scores", "quantile_scores"):
            v = getattr(self, k)
            snap[k] = None if v is None else v.copy()
        for k, v in self._other.items():
            snap["other:" + k] = v.copy()
        return snap

    def differs_from(self, snap):
        for k, v in snap.items():
            cur = self._other[k[6:]] if k.startswith("other:") else getattr(self, k)
            if v is None:
                if cur is not None:
                    return k
                continue
            if cur is None or cur.shape != v.shape or not np.array_equal(cur, v, equal_nan=True):
                return k
        return None


def mem_inputs(spec):
    ins = [MemInput(d, spec) for d in spec["inputs"]]
    clim = MemInput(spec["clim"], spec) if spec.get("clim") else None
    return ins, clim


def vfield(f):
    kind = f[0]
    if kind == "obs":
        return verif.field.Obs()
    if kind == "fcst":
        return verif.field.Fcst()
    if kind == "pit":
        return verif.field.Pit()
    if kind == "thr":
        return verif.field.Threshold(f[1])
    if kind == "q":
        return verif.field.Quantile(f[1])
    if kind == "ens":
        return verif.field.Ensemble(f[1])
    if kind == "other":
        return verif.field.Other(f[1])
    raise ValueError(f)


def vaxis(name):
    return verif.axis.get(name)


def data_kwargs(opts):
    """Model option dict -> verif.data.Data keyword arguments."""
    opts = opts or {}
    kw = {}
    for k in ("times", "dates", "tods", "leadtimes", "locations", "locations_x", "lat_range", "lon_range",
              "elev_range", "obs_range"):
        if opts.get(k) is not None:
            kw[k] = list(opts[k])
    if opts.get("clim_type"):
        kw["clim_type"] = opts["clim_type"]
    return kw


def make_data(spec, opts=None, inputs=None):
    import verif.data
    if inputs is None:
        ins, clim = mem_inputs(spec)
    else:
        ins, clim = inputs
    kw = data_kwargs(opts)
    return verif.data.Data(ins, clim=clim, **kw)


# --------------------------------------------------------------------------------------
# Text files
# --------------------------------------------------------------------------------------
MISSING_TOKENS = ["-999", "nan", "NA", "missing", "-999.0", "NaN"]


def fmt_num(v):
    if v is None:
        return "-999"
    if float(v) == int(v) and abs(v) < 1e15:
        return "%d" % int(v)
    return repr(float(v))


def fmt_col(v):
    """Column-name spelling of a threshold/quantile value."""
    return "%g" % v


def text_rows(d, spec, time_style="unixtime"):
    """Header and rows (lists of strings) for one input in file order."""
    times = [spec["times"][i] for i in d["ti"]]
    leads = [spec["leadtimes"][i] for i in d["li"]]
    locs = [spec["locs"][i] for i in d["si"]]
    header = []
    if time_style == "unixtime":
        header += ["unixtime"]
    else:
        header += ["date", "hour"]
    header += ["leadtime", "location", "lat", "lon", "altitude"]
    if d.get("obs") is not None:
        header.append("obs")
    if d.get("fcst") is not None:
        header.append("fcst")
    if d.get("pit") is not None:
        header.append("pit")
    for t in d.get("thresholds") or []:
        header.append("p" + fmt_col(t))
    for q in d.get("quantiles") or []:
        header.append("q" + fmt_col(q))
    if d.get("ens") is not None:
        for m in range(d["members"]):
            header.append("e%d" % m)
    for name in sorted((d.get("other") or {}).keys()):
        header.append(name)
    rows = []
    for a, t in enumerate(times):
        for b, l in enumerate(leads):
            for c, loc in enumerate(locs):
                row = []
                if time_style == "unixtime":
                    row.append("%d" % t)
                else:
                    from . import model
                    row.append("%d" % model.unix_to_date(t))
                    row.append(fmt_num((t % 86400) / 3600.0))
                row += [fmt_num(l), fmt_num(loc["id"]), fmt_num(loc["lat"]), fmt_num(loc["lon"]), fmt_num(loc["elev"])]
                if d.get("obs") is not None:
                    row.append(fmt_num(d["obs"][a][b][c]))
                if d.get("fcst") is not None:
                    row.append(fmt_num(d["fcst"][a][b][c]))
                if d.get("pit") is not None:
                    row.append(fmt_num(d["pit"][a][b][c]))
                for k in range(len(d.get("thresholds") or [])):
                    row.append(fmt_num(d["cdf"][a][b][c][k]))
                for k in range(len(d.get("quantiles") or [])):
                    row.append(fmt_num(d["qs"][a][b][c][k]))
                if d.get("ens") is not None:
                    for m in range(d["members"]):
                        row.append(fmt_num(d["ens"][a][b][c][m]))
                for name in sorted((d.get("other") or {}).keys()):
                    row.append(fmt_num(d["other"][name][a][b][c]))
                rows.append(row)
    return header, rows


def write_text(d, spec, path, time_style="unixtime", missing_token="-999", row_order=None, col_order=None, sep=" "):
    header, rows = text_rows(d, spec, time_style)
    if row_order is not None:
        rows = [rows[i] for i in row_order]
    if col_order is not None:
        header = [header[i] for i in col_order]
        rows = [[r[i] for i in col_order] for r in rows]
    var = spec.get("var") or {}
    with open(path, "w") as f:
        f.write("# variable: %s\n" % var.get("name", "T"))
        f.write("# units: %s\n" % var.get("units", "K"))
        if var.get("x0") is not None:
            f.write("# x0: %s\n" % fmt_num(var["x0"]))
        if var.get("x1") is not None:
            f.write("# x1: %s\n" % fmt_num(var["x1"]))
        f.write(sep.join(header) + "\n")
        for r in rows:
            f.write(sep.join(missing_token if v == "-999" else v for v in r) + "\n")
    return path


# --------------------------------------------------------------------------------------
# NetCDF files
# --------------------------------------------------------------------------------------
def write_netcdf(d, spec, path, missing="fill", dtype="f4", time_dtype="f8", with_altitude=True, with_location=True,
                 dim_order=None, nc_format="NETCDF4", with_lat=True, with_lon=True):
    """missing: 'fill' (masked/_FillValue), '-999', 'nan', 'big' (1e36)."""
    import netCDF4
    times = [spec["times"][i] for i in d["ti"]]
    leads = [spec["leadtimes"][i] for i in d["li"]]
    locs = [spec["locs"][i] for i in d["si"]]
    nc = netCDF4.Dataset(path, "w", format=nc_format)
    dims = dim_order or ["time", "leadtime", "location"]
    sizes = {"time": len(times), "leadtime": len(leads), "location": len(locs)}
    for name in dims:
        nc.createDimension(name, sizes[name])
    v = nc.createVariable("time", time_dtype, ("time",))
    v[:] = np.array(times, float)
    v = nc.createVariable("leadtime", "f4", ("leadtime",))
    v[:] = np.array(leads, float)
    if with_location:
        v = nc.createVariable("location", "i4", ("location",))
        v[:] = np.array([loc["id"] for loc in locs], int)
    if with_lat:
        v = nc.createVariable("lat", "f4", ("location",))
        v[:] = np.array([loc["lat"] for loc in locs], float)
    if with_lon:
        v = nc.createVariable("lon", "f4", ("location",))
        v[:] = np.array([loc["lon"] for loc in locs], float)
    if with_altitude:
        v = nc.createVariable("altitude", "f4", ("location",))
        v[:] = np.array([loc["elev"] for loc in locs], float)

    def put(name, nested, extra_dim=None):
        if nested is None:
            return
        a = arr(nested)
        dd = ("time", "leadtime", "location") + ((extra_dim,) if extra_dim else ())
        kw = {}
        if missing == "fill":
            kw["fill_value"] = netCDF4.default_fillvals[dtype]
        elif missing == "fill-9999":
            kw["fill_value"] = -9999.0          # a file-specific _FillValue that is an ordinary number
        var = nc.createVariable(name, dtype, dd, **kw)
        if missing in ("fill", "fill-9999"):
            var[:] = np.ma.masked_invalid(a)
        elif missing == "missing_value":
            var.missing_value = np.array(-99.0, dtype)   # masked through the missing_value attribute
            a = a.copy()
            a[np.isnan(a)] = -99.0
            var[:] = a
        elif missing == "-999":
            a = a.copy()
            a[np.isnan(a)] = -999
            var[:] = a
        elif missing == "big":
            a = a.copy()
            a[np.isnan(a)] = 1e36
            var[:] = a
        else:
            var[:] = a

    put("obs", d.get("obs"))
    put("fcst", d.get("fcst"))
    put("pit", d.get("pit"))
    if d.get("thresholds"):
        nc.createDimension("threshold", len(d["thresholds"]))
        v = nc.createVariable("threshold", "f4", ("threshold",))
        v[:] = np.array(d["thresholds"], float)
        put("cdf", d.get("cdf"), "threshold")
    if d.get("quantiles"):
        nc.createDimension("quantile", len(d["quantiles"]))
        v = nc.createVariable("quantile", "f4", ("quantile",))
        v[:] = np.array(d["quantiles"], float)
        put("x", d.get("qs"), "quantile")
    if d.get("ens") is not None:
        nc.createDimension("ensemble_member", d["members"])
        put("ensemble", d.get("ens"), "ensemble_member")
    for name in sorted((d.get("other") or {}).keys()):
        put(name, d["other"][name])
    var = spec.get("var") or {}
    nc.long_name = var.get("name", "T")
    nc.units = var.get("units", "K")
    if var.get("x0") is not None:
        nc.x0 = float(var["x0"])
    if var.get("x1") is not None:
        nc.x1 = float(var["x1"])
    nc.close()
    return path


def write_files(spec, directory, kind="text", **kw):
    """Writes every input (and the climatology) of spec; returns (paths, clim_path)."""
    paths = []
    ext = ".txt" if kind == "text" else ".nc"
    for d in spec["inputs"]:
        p = os.path.join(directory, d["name"] + ext)
        (write_text if kind == "text" else write_netcdf)(d, spec, p, **kw)
        paths.append(p)
    cp = None
    if spec.get("clim"):
        cp = os.path.join(directory, spec["clim"]["name"] + ext)
        (write_text if kind == "text" else write_netcdf)(spec["clim"], spec, cp, **kw)
    return paths, cp
