"""Reference model. Written from the property statements and the program's help text.
It NEVER imports verif (nor numpy-based helpers of verif): plain Python on lists, dicts,
fractions and math.fsum, keyed by coordinates.
"""
import math
from fractions import Fraction

BIN_TYPES = ["below", "below=", "above", "above=", "within", "=within", "within=", "=within="]
WITHIN_TYPES = ["within", "=within", "within=", "=within="]


def isnan(x):
    return isinstance(x, float) and x != x


# --------------------------------------------------------------------------------------
# Events (C07)
# --------------------------------------------------------------------------------------
def in_event(bin_type, x, t0, t1=None):
    """Documented meaning of -b. Returns None for a missing value (belongs to no event)."""
    if x is None or isnan(x):
        return None
    if bin_type == "below":
        return x < t0
    if bin_type == "below=":
        return x <= t0
    if bin_type == "above":
        return x > t0
    if bin_type == "above=":
        return x >= t0
    if bin_type == "within":
        return t0 < x < t1
    if bin_type == "within=":
        return t0 < x <= t1
    if bin_type == "=within":
        return t0 <= x < t1
    if bin_type == "=within=":
        return t0 <= x <= t1
    raise ValueError(bin_type)


def events(bin_type, thresholds):
    """List of (t0, t1) pairs, one per event that -b bin_type -r thresholds denotes."""
    if bin_type in WITHIN_TYPES:
        return [(thresholds[i], thresholds[i + 1]) for i in range(len(thresholds) - 1)]
    return [(t, None) for t in thresholds]


def event_prob(bin_type, cdf0, cdf1=None):
    """Probability of the event given P(X<=t0) (and P(X<=t1) for the within family)."""
    if bin_type in ("below", "below="):
        return cdf0
    if bin_type in ("above", "above="):
        return 1 - cdf0
    return cdf1 - cdf0


# --------------------------------------------------------------------------------------
# Civil calendar on integers (no datetime) - C11, C03 (-d), C12 (row labels)
# --------------------------------------------------------------------------------------
def days_from_civil(y, m, d):
    y -= m <= 2
    era = (y if y >= 0 else y - 399) // 400
    yoe = y - era * 400
    doy = (153 * (m + (-3 if m > 2 else 9)) + 2) // 5 + d - 1
    doe = yoe * 365 + yoe // 4 - yoe // 100 + doy
    return era * 146097 + doe - 719468


def civil_from_days(z):
    z += 719468
    era = (z if z >= 0 else z - 146096) // 146097
    doe = z - era * 146097
    yoe = (doe - doe // 1460 + doe // 36524 - doe // 146096) // 365
    y = yoe + era * 400
    doy = doe - (365 * yoe + yoe // 4 - yoe // 100)
    mp = (5 * doy + 2) // 153
    d = doy - (153 * mp + 2) // 5 + 1
    m = mp + (3 if mp < 10 else -9)
    return (y + (m <= 2), m, d)


def is_leap(y):
    return (y % 4 == 0 and y % 100 != 0) or y % 400 == 0


def date_to_unix(date):
    y, m, d = date // 10000, date // 100 % 100, date % 100
    return days_from_civil(y, m, d) * 86400


def unix_to_date(t):
    y, m, d = civil_from_days(int(t) // 86400)
    return y * 10000 + m * 100 + d


def valid_date(date):
    y, m, d = date // 10000, date // 100 % 100, date % 100
    if not (1 <= m <= 12 and d >= 1):
        return False
    mdays = [31, 29 if is_leap(y) else 28, 31, 30, 31, 30, 31, 31, 30, 31, 30, 31]
    return d <= mdays[m - 1]


def add_days(date, k):
    return unix_to_date(date_to_unix(date) + k * 86400)


def day_of_year(y, m, d):
    return days_from_civil(y, m, d) - days_from_civil(y, 1, 1) + 1


TIME_AXES = ["time", "year", "month", "week", "day", "timeofday", "dayofyear", "dayofmonth", "monthofyear"]
LEADTIME_AXES = ["leadtime", "leadtimeday"]
LOCATION_AXES = ["location", "lat", "lon", "elev"]
DATA_AXES = TIME_AXES + LEADTIME_AXES + LOCATION_AXES + ["no"]


def time_bucket(axis, t):
    """Bucket value of initialisation time t (unix seconds, UTC calendar)."""
    t = int(t)
    days = t // 86400
    y, m, d = civil_from_days(days)
    if axis == "time":
        return t
    if axis == "year":
        return days_from_civil(y, 1, 1) * 86400
    if axis == "month":
        return days_from_civil(y, m, 1) * 86400
    if axis == "week":
        weekday = (days + 3) % 7  # Monday = 0; 1970-01-01 was a Thursday
        return (days - weekday) * 86400
    if axis == "day":
        return days * 86400
    if axis == "timeofday":
        return (t % 86400) / 3600.0
    if axis == "dayofyear":
        # the tool numbers days within a leap-year calendar (1 Mar is always day 61);
        # the check compares the partition and only judges the value where it is unambiguous
        return day_of_year(2000, m, d)
    if axis == "dayofmonth":
        return d
    if axis == "monthofyear":
        return m
    raise ValueError(axis)


def leadtime_bucket(axis, l):
    if axis == "leadtime":
        return l
    if axis == "leadtimeday":
        return int(l / 24)
    raise ValueError(axis)


def format_time_label(axis, bucket):
    """Row label verif prints for a time-like axis (strftime formats of the axes)."""
    t = int(bucket)
    y, m, d = civil_from_days(t // 86400)
    s = t % 86400
    if axis == "time":
        return "%04d-%02d-%02d %02d:%02d:%02d" % (y, m, d, s // 3600, s % 3600 // 60, s % 60)
    if axis == "year":
        return "%04d" % y
    if axis == "month":
        return "%04d/%02d" % (y, m)
    if axis == "day":
        return "%04d/%02d/%02d" % (y, m, d)
    if axis == "week":
        # %U: week number of the year with Sunday as first day of the week
        doy = day_of_year(y, m, d)
        wday_sun0 = ((t // 86400) + 4) % 7  # Sunday = 0
        return "%04d/%02d" % (y, (doy + 6 - wday_sun0) // 7)
    raise ValueError(axis)


# --------------------------------------------------------------------------------------
# Dataset model (C01-C04, C11, C14, C18): coordinate-keyed dictionaries
# --------------------------------------------------------------------------------------
class MInput(object):
    """One input file as dictionaries keyed by (time, leadtime, location id)."""

    def __init__(self, d, spec):
        self.name = d["name"]
        self.times = [spec["times"][i] for i in d["ti"]]
        self.leadtimes = [spec["leadtimes"][i] for i in d["li"]]
        self.locs = [spec["locs"][i] for i in d["si"]]
        self.ids = [loc["id"] for loc in self.locs]
        self.has_obs = d.get("obs") is not None
        self.thresholds = list(d.get("thresholds") or [])
        self.quantiles = list(d.get("quantiles") or [])
        self.members = d.get("members", 0) if d.get("ens") is not None else 0
        self.others = sorted((d.get("other") or {}).keys())
        self.f = {}

        def fill(name, nested, extra=None):
            if nested is None:
                return
            tab = {}
            for a, t in enumerate(self.times):
                for b, l in enumerate(self.leadtimes):
                    for c, s in enumerate(self.ids):
                        v = nested[a][b][c]
                        if extra is None:
                            if v is not None:
                                tab[(t, l, s)] = v
                        else:
                            tab[(t, l, s)] = v  # list over the 4th dimension, None = missing
            self.f[name] = tab
        fill("obs", d.get("obs"))
        fill("fcst", d.get("fcst"))
        fill("pit", d.get("pit"))
        fill("ens", d.get("ens"), 4)
        fill("cdf", d.get("cdf"), 4)
        fill("qs", d.get("qs"), 4)
        for name in self.others:
            fill("other:" + name, d["other"][name])

    def has(self, name):
        return name in self.f

    def value(self, field, c):
        """Value of field at coordinate c in this file; None when missing. field is a tuple:
        ("obs",) ("fcst",) ("pit",) ("thr", t) ("q", q) ("ens", m) ("other", name)."""
        kind = field[0]
        if kind in ("obs", "fcst", "pit"):
            return self.f.get(kind, {}).get(c)
        if kind == "other":
            return self.f.get("other:" + field[1], {}).get(c)
        if kind == "ens":
            row = self.f.get("ens", {}).get(c)
            return None if row is None else row[field[1]]
        if kind == "thr":
            t = field[1]
            if t in self.thresholds:
                row = self.f["cdf"].get(c)
                return None if row is None else row[self.thresholds.index(t)]
            row = self.f.get("ens", {}).get(c)
            if row is None:
                return None
            vals = [v for v in row if v is not None]
            if not vals:
                return None
            return sum(1 for v in vals if v <= t) / float(len(vals))
        if kind == "q":
            q = field[1]
            if q in self.quantiles:
                row = self.f["qs"].get(c)
                return None if row is None else row[self.quantiles.index(q)]
            row = self.f.get("ens", {}).get(c)
            if row is None or any(v is None for v in row):
                return None
            return ("ensq", tuple(row), q)  # interpolation rule is the implementation's (C08 judges validity)
        raise ValueError(field)


def build_inputs(spec):
    ins = [MInput(d, spec) for d in spec["inputs"]]
    clim = MInput(spec["clim"], spec) if spec.get("clim") else None
    return ins, clim


def loc_meta(ins):
    return {loc["id"]: loc for loc in ins[0].locs}


def common_dims(ins, clim, opts=None):
    """Times, lead times and location ids that are verified: present in every input (and the
    climatology) and selected by every subsetting option. Ascending."""
    opts = opts or {}
    allin = ins + ([clim] if clim is not None else [])
    times = set(allin[0].times)
    leads = set(allin[0].leadtimes)
    ids = set(allin[0].ids)
    for m in allin[1:]:
        times &= set(m.times)
        leads &= set(m.leadtimes)
        ids &= set(m.ids)
    meta = loc_meta(allin)
    if opts.get("times") is not None:
        times &= set(opts["times"])
    if opts.get("dates") is not None:
        ds = set(opts["dates"])
        times = set(t for t in times if unix_to_date(t) in ds)
    if opts.get("tods") is not None:
        hs = set(opts["tods"])
        times = set(t for t in times if (t % 86400) % 3600 == 0 and (t % 86400) // 3600 in hs)
    if opts.get("leadtimes") is not None:
        leads &= set(opts["leadtimes"])
    if opts.get("locations") is not None:
        ids &= set(opts["locations"])
    if opts.get("lat_range") is not None:
        a, b = opts["lat_range"]
        ids = set(i for i in ids if i in meta and a <= meta[i]["lat"] <= b)
    if opts.get("lon_range") is not None:
        a, b = opts["lon_range"]
        ids = set(i for i in ids if i in meta and a <= meta[i]["lon"] <= b)
    if opts.get("elev_range") is not None:
        a, b = opts["elev_range"]
        ids = set(i for i in ids if i in meta and a <= meta[i]["elev"] <= b)
    if opts.get("locations_x") is not None:
        ids -= set(opts["locations_x"])
    return sorted(times), sorted(leads), sorted(ids)


def obs_source(ins, clim, i):
    """Index (into ins+[clim]) of the input whose observations input i is scored against."""
    allin = ins + ([clim] if clim is not None else [])
    if allin[i].has_obs:
        return i
    for j, m in enumerate(allin):
        if m.has_obs:
            return j
    return None


def case_values(ins, clim, opts, fields, i, c):
    """Values of `fields` for input i at common coordinate c, or None when c is not a valid case.

    Valid iff every requested field is non-missing at c in EVERY input (and the climatology),
    with observations shared from the first input that has them; with -obsrange the observation
    lies in the inclusive range; with a climatology the climatology forecast is present and the
    anomaly (difference or quotient) of every obs/fcst value is finite.
    Returns a tuple of floats in the order of `fields` (anomalies for obs/fcst with climatology).
    """
    opts = opts or {}
    allin = ins + ([clim] if clim is not None else [])
    out = []
    uses_of = any(f[0] in ("obs", "fcst") for f in fields)
    cv = None
    if clim is not None and uses_of:
        # the climatology's forecast is one more forecast series that must be present everywhere
        for m in allin:
            if m.value(("fcst",), c) is None:
                return None
        cv = clim.value(("fcst",), c)
    for f in fields:
        if f[0] == "obs":
            vals = [m.value(f, c) for m in allin if m.has_obs]
            if not vals or any(v is None for v in vals):
                return None
            v = allin[obs_source(ins, clim, i)].value(f, c)
            rng = opts.get("obs_range")
            if rng is not None and not (rng[0] <= v <= rng[1]):
                return None
        else:
            for m in allin:
                if m.value(f, c) is None:
                    return None
            v = ins[i].value(f, c)
        if cv is not None and f[0] in ("obs", "fcst"):
            if opts.get("clim_type", "subtract") == "subtract":
                v = v - cv
            else:
                if cv == 0:
                    return None
                v = v / cv
        out.append(v)
    return tuple(out)


def slices(axis, times, leads, ids, meta):
    """List of (bucket_value, predicate(c)) in axis order for a data axis."""
    if axis == "no":
        return [(0, lambda c: True)]
    if axis in TIME_AXES:
        bs = sorted(set(time_bucket(axis, t) for t in times))
        return [(b, (lambda c, b=b: time_bucket(axis, c[0]) == b)) for b in bs]
    if axis in LEADTIME_AXES:
        bs = sorted(set(leadtime_bucket(axis, l) for l in leads))
        return [(b, (lambda c, b=b: leadtime_bucket(axis, c[1]) == b)) for b in bs]
    if axis in LOCATION_AXES:
        key = {"location": "id", "lat": "lat", "lon": "lon", "elev": "elev"}[axis]
        return [(meta[i][key], (lambda c, i=i: c[2] == i)) for i in ids]
    raise ValueError(axis)


def cases(ins, clim, opts, fields, i, axis="no", index=0):
    """Sorted list of value tuples of the valid cases of slice `index` along `axis`."""
    times, leads, ids = common_dims(ins, clim, opts)
    meta = loc_meta(ins)
    sl = slices(axis, times, leads, ids, meta)
    if index >= len(sl):
        return None
    pred = sl[index][1]
    out = []
    for t in times:
        for l in leads:
            for s in ids:
                c = (t, l, s)
                if not pred(c):
                    continue
                v = case_values(ins, clim, opts, fields, i, c)
                if v is not None:
                    out.append(v)
    return out


class DS(object):
    """Model of one dataset + options: dims computed once, cases on demand."""

    def __init__(self, spec, opts=None):
        self.spec = spec
        self.opts = opts or {}
        self.ins, self.clim = build_inputs(spec)
        self.times, self.leads, self.ids = common_dims(self.ins, self.clim, self.opts)
        self.meta = loc_meta(self.ins)
        self.empty = not (self.times and self.leads and self.ids)
        self._grid = {}

    def coords(self):
        for t in self.times:
            for l in self.leads:
                for s in self.ids:
                    yield (t, l, s)

    def grid(self, fields, i):
        key = (tuple(fields), i)
        g = self._grid.get(key)
        if g is None:
            g = {}
            for c in self.coords():
                g[c] = case_values(self.ins, self.clim, self.opts, fields, i, c)
            self._grid[key] = g
        return g

    def slices(self, axis):
        return slices(axis, self.times, self.leads, self.ids, self.meta)

    def cases(self, fields, i, axis="no", index=0):
        sl = self.slices(axis)
        pred = sl[index][1]
        g = self.grid(fields, i)
        return [g[c] for c in self.coords() if pred(c) and g[c] is not None]

    def n_slices(self, axis):
        return len(self.slices(axis))


# --------------------------------------------------------------------------------------
# Aggregators (C15) and deterministic metric definitions (C05): plain Python on lists
# --------------------------------------------------------------------------------------
NAN = float("nan")


def _fr(x):
    return Fraction(x)


def agg_mean(xs):
    return float(sum(map(_fr, xs)) / len(xs)) if xs else NAN


def quantile_linear(xs, q):
    """Linear interpolation between order statistics (position (n-1)q)."""
    if not xs:
        return NAN
    s = sorted(xs)
    pos = Fraction(repr(float(q))) * (len(s) - 1)   # the level as written (0.9 = 9/10), not its binary expansion
    lo = int(pos)
    hi = min(lo + 1, len(s) - 1)
    frac = pos - lo
    return float(_fr(s[lo]) + (_fr(s[hi]) - _fr(s[lo])) * frac)


def aggregate(name, xs):
    """Reference statistic `name` of the list xs (no NaN inside). Empty -> NaN (count -> 0)."""
    xs = list(xs)
    n = len(xs)
    if name == "count":
        return float(n)
    if n == 0:
        return NAN
    F = [_fr(x) for x in xs]
    if name == "mean":
        return float(sum(F) / n)
    if name == "median":
        return quantile_linear(xs, 0.5)
    if name == "min":
        return float(min(xs))
    if name == "max":
        return float(max(xs))
    if name in ("std", "variance"):
        m = sum(F) / n
        var = sum((f - m) ** 2 for f in F) / n
        return float(var) if name == "variance" else math.sqrt(var)
    if name == "iqr":
        return quantile_linear(xs, 0.75) - quantile_linear(xs, 0.25)
    if name == "range":
        return float(max(xs) - min(xs))
    if name == "sum":
        return float(sum(F))
    if name == "meanabs":
        return float(sum(abs(f) for f in F) / n)
    if name == "absmean":
        return float(abs(sum(F) / n))
    if name == "change":
        return float(F[-1] - F[0])
    if name == "abschange":
        return float(abs(F[-1] - F[0]))
    try:
        q = float(name)
    except ValueError:
        raise KeyError(name)
    return quantile_linear(xs, q)


def avg_ranks(xs):
    order = sorted(range(len(xs)), key=lambda i: xs[i])
    ranks = [0.0] * len(xs)
    i = 0
    while i < len(order):
        j = i
        while j + 1 < len(order) and xs[order[j + 1]] == xs[order[i]]:
            j += 1
        r = (i + j) / 2.0 + 1
        for k in range(i, j + 1):
            ranks[order[k]] = r
        i = j + 1
    return ranks


def pearson(xs, ys):
    n = len(xs)
    if n < 2:
        return None
    X = [_fr(x) for x in xs]
    Y = [_fr(y) for y in ys]
    mx = sum(X) / n
    my = sum(Y) / n
    sxx = sum((x - mx) ** 2 for x in X)
    syy = sum((y - my) ** 2 for y in Y)
    sxy = sum((x - mx) * (y - my) for x, y in zip(X, Y))
    if sxx == 0 or syy == 0:
        return None
    return float(sxy) / math.sqrt(float(sxx) * float(syy))


def kendall_tau_b(xs, ys):
    n = len(xs)
    if n < 2:
        return None
    conc = disc = tx = ty = 0
    for i in range(n):
        for j in range(i + 1, n):
            dx = xs[i] - xs[j]
            dy = ys[i] - ys[j]
            if dx == 0 and dy == 0:
                tx += 1
                ty += 1
            elif dx == 0:
                tx += 1
            elif dy == 0:
                ty += 1
            elif (dx > 0) == (dy > 0):
                conc += 1
            else:
                disc += 1
    n0 = n * (n - 1) // 2
    den = (n0 - tx) * (n0 - ty)
    if den == 0:
        return None
    return (conc - disc) / math.sqrt(den)


def det_metric(name, pairs, agg="mean"):
    """Textbook value of deterministic metric `name` on the list of (obs, fcst) pairs.
    Returns a float, or None where the definition is undefined."""
    n = len(pairs)
    if n == 0:
        return None
    o = [p[0] for p in pairs]
    f = [p[1] for p in pairs]
    O = [_fr(x) for x in o]
    Fc = [_fr(x) for x in f]
    e = [b - a for a, b in zip(O, Fc)]

    def A(xs):
        v = aggregate(agg, [float(x) for x in xs])
        return v

    if name == "mae":
        return A([abs(x) for x in e])
    if name == "bias":
        return A(e)
    if name == "rmse":
        v = A([x * x for x in e])
        return math.sqrt(v) if v >= 0 else None
    if name == "diff":
        return A(Fc) - A(O)
    if name == "ratio":
        den = A(O)
        return None if den == 0 else A(Fc) / den
    if name == "rmsf":
        if any(a == 0 for a in O) or any(b / a <= 0 for a, b in zip(O, Fc)):
            return None
        v = A([math.log(float(b / a)) ** 2 for a, b in zip(O, Fc)])
        return math.exp(math.sqrt(v)) if v >= 0 else None
    if name == "cmae":
        v = A([abs(a ** 3 - b ** 3) for a, b in zip(O, Fc)])
        return v ** (1.0 / 3) if v >= 0 else None
    if name == "ef":
        return sum(1 for a, b in zip(O, Fc) if b > a) / float(n)
    if name == "stderror":
        m = sum(e) / n
        return math.sqrt(sum((x - m) ** 2 for x in e) / n)
    if name == "obsstddev":
        m = sum(O) / n
        return math.sqrt(sum((x - m) ** 2 for x in O) / n)
    if name == "fcststddev":
        m = sum(Fc) / n
        return math.sqrt(sum((x - m) ** 2 for x in Fc) / n)
    if name in ("nsec", "nnsec"):
        mo = sum(O) / n
        den = sum((x - mo) ** 2 for x in O)
        if den == 0:
            return None
        nsec = 1 - sum(x * x for x in e) / den
        return float(nsec) if name == "nsec" else float(1 / (2 - nsec))
    if name == "kge":
        r = pearson(o, f)
        mo = sum(O) / n
        mf = sum(Fc) / n
        so = math.sqrt(sum((x - mo) ** 2 for x in O) / n)
        sf = math.sqrt(sum((x - mf) ** 2 for x in Fc) / n)
        if r is None or mo == 0 or so == 0 or sf == 0:
            return None
        return 1 - math.sqrt((r - 1) ** 2 + (float(mf / mo) - 1) ** 2 + (sf / so - 1) ** 2)
    if name == "alphaindex":
        mo = sum(O) / n
        mf = sum(Fc) / n
        me = sum(e) / n
        den = sum((b - mf) ** 2 + (a - mo) ** 2 for a, b in zip(O, Fc))
        if den == 0:
            return None
        return float(sum((x - me) ** 2 for x in e) / den)
    if name == "leps":
        # mean |F_o(f_i) - F_o(o_i)| with F_o the empirical cdf of the observations
        def cdf(x):
            return sum(1 for a in O if a <= x) / float(n)
        return sum(abs(cdf(b) - cdf(a)) for a, b in zip(O, Fc)) / n
    if name == "dmb":
        mf = sum(Fc)
        return None if mf == 0 else float(sum(O) / mf)
    if name == "mbias":
        mo = sum(O)
        return None if mo == 0 else float(sum(Fc) / mo)
    if name == "corr":
        return pearson(o, f)
    if name == "rankcorr":
        return pearson(avg_ranks(o), avg_ranks(f))
    if name == "kendallcorr":
        return kendall_tau_b(o, f)
    if name == "derror":
        return float(sum(abs(a - b) for a, b in zip(sorted(O), sorted(Fc))) / n)
    raise KeyError(name)


# --------------------------------------------------------------------------------------
# 2x2 contingency-table scores (C06). a hits, b false alarms, c misses, d correct rejections.
# --------------------------------------------------------------------------------------
CONT_METRICS = ["a", "b", "c", "d", "n", "ets", "threat", "pc", "kss", "hss", "hit", "miss", "fa", "far", "biasfreq",
                "baserate", "fcstrate", "or", "lor", "yulesq", "dscore", "edi", "sedi", "eds", "seds"]


def cont_metric(name, a, b, c, d):
    """Textbook value from the four counts; None where the formula is undefined."""
    a, b, c, d = Fraction(a), Fraction(b), Fraction(c), Fraction(d)
    n = a + b + c + d
    if n == 0:
        return None

    def div(x, y):
        return None if y == 0 else float(Fraction(x) / Fraction(y))

    def ln(x):
        return math.log(float(x))

    if name == "a":
        return div(a, n)
    if name == "b":
        return div(b, n)
    if name == "c":
        return div(c, n)
    if name == "d":
        return div(d, n)
    if name == "n":
        return float(n)
    if name == "ets":
        ar = (a + b) * (a + c) / n
        return div(a - ar, a + b + c - ar)
    if name == "threat":
        return div(a, a + b + c)
    if name == "pc":
        return div(a + d, n)
    if name == "kss":
        return div(a * d - b * c, (a + c) * (b + d))
    if name == "hss":
        return div(2 * (a * d - b * c), (a + c) * (c + d) + (a + b) * (b + d))
    if name == "hit":
        return div(a, a + c)
    if name == "miss":
        return div(c, a + c)
    if name == "fa":
        return div(b, b + d)
    if name == "far":
        return div(b, a + b)
    if name == "biasfreq":
        return div(a + b, a + c)
    if name == "baserate":
        return div(a + c, n)
    if name == "fcstrate":
        return div(a + b, n)
    if name == "or":
        return div(a * d, b * c)
    if name == "lor":
        if a * d == 0 or b * c == 0:
            return None
        return ln(a * d / (b * c))
    if name == "yulesq":
        return div(a * d - b * c, a * d + b * c)
    if name == "dscore":
        return div(a * d + Fraction(1, 2) * (a * b + c * d), (a + c) * (b + d))
    if name in ("edi", "sedi"):
        if b + d == 0 or a + c == 0:
            return None
        Fr = b / (b + d)
        H = a / (a + c)
        if name == "edi":
            if Fr == 0 or H == 0:
                return None
            den = ln(Fr) + ln(H)
            return None if den == 0 else (ln(Fr) - ln(H)) / den
        if Fr in (0, 1) or H in (0, 1):
            return None
        den = ln(Fr) + ln(H) + ln(1 - Fr) + ln(1 - H)
        return None if den == 0 else (ln(Fr) - ln(H) - ln(1 - Fr) + ln(1 - H)) / den
    if name == "eds":
        # 2 ln((a+c)/n) / ln(a/n) - 1
        if a == 0 or a + c == 0:
            return None
        den = ln(a / n)
        return None if den == 0 else 2 * ln((a + c) / n) / den - 1
    if name == "seds":
        # (ln((a+b)/n) + ln((a+c)/n)) / ln(a/n) - 1
        if a == 0 or a + b == 0 or a + c == 0:
            return None
        den = ln(a / n)
        return None if den == 0 else (ln((a + b) / n) + ln((a + c) / n)) / den - 1
    raise KeyError(name)


# --------------------------------------------------------------------------------------
# -T pre-aggregation (C15): trailing window (x - h, x] along lead time (hours) or time (seconds)
# --------------------------------------------------------------------------------------
def window_aggregate(agg, vals):
    """Aggregate of a window given as a list with None for missing. A missing member makes every
    statistic but the count missing."""
    if agg == "count":
        return float(sum(1 for v in vals if v is not None))
    if agg in ("change", "abschange"):
        if vals[0] is None or vals[-1] is None:
            return None
        return aggregate(agg, [vals[0], vals[-1]])
    if any(v is None for v in vals):
        return None
    r = aggregate(agg, vals)
    return None if (r is None or (isinstance(r, float) and r != r)) else r


def preaggregate_spec(spec, h, axis, agg):
    """Spec in which obs, fcst and every ensemble member of every input are replaced by the aggregate
    of the same series over the trailing window (x-h, x] along `axis` ('leadtime' in hours, 'time' in
    hours of initialisation time). Stored probabilities/quantiles/pit are dropped (they are not
    what -T is documented to transform)."""
    import copy
    out = copy.deepcopy(spec)
    for d in out["inputs"] + ([out["clim"]] if out.get("clim") else []):
        times = [spec["times"][i] for i in d["ti"]]
        leads = [spec["leadtimes"][i] for i in d["li"]]
        nT, nL, nS = len(times), len(leads), len(d["si"])

        def win(a, b):
            # in coordinate order (the order matters to 'change' = last - first), whatever order the file stores them in
            if axis == "leadtime":
                return [(a, j) for j in sorted(range(nL), key=lambda j: leads[j]) if leads[b] - h < leads[j] <= leads[b]]
            return [(j, b) for j in sorted(range(nT), key=lambda j: times[j]) if times[a] - h * 3600 < times[j] <= times[a]]

        def conv(nested, member=None):
            res = []
            for a in range(nT):
                pa = []
                for b in range(nL):
                    pb = []
                    for c in range(nS):
                        w = win(a, b)
                        if member is None:
                            vals = [nested[x][y][c] for x, y in w]
                        else:
                            vals = [nested[x][y][c][member] for x, y in w]
                        pb.append(window_aggregate(agg, vals))
                    pa.append(pb)
                res.append(pa)
            return res
        for name in ("obs", "fcst"):
            if d.get(name) is not None:
                d[name] = conv(d[name])
        if d.get("ens") is not None:
            M = d["members"]
            per = [conv(d["ens"], m) for m in range(M)]
            d["ens"] = [[[[per[m][a][b][c] for m in range(M)] for c in range(nS)] for b in range(nL)] for a in range(nT)]
        for name in ("pit", "cdf", "qs", "thresholds", "quantiles", "other"):
            d.pop(name, None)
    return out


# --------------------------------------------------------------------------------------
# Probabilistic scores (C08)
# --------------------------------------------------------------------------------------
def prob_bin(p):
    """Index of the probability bin [k/10, (k+1)/10) (last one closed). Only called with
    probabilities that are not within float noise of an interior edge."""
    k = int(math.floor(p * 10 + 1e-12))
    return min(max(k, 0), 9)


def near_decimal_edge(p):
    x = p * 10
    return abs(x - round(x)) < 1e-9 and 0 < round(x) < 10 and round(x) != 5


def brier_terms(ps, os_):
    """ps probabilities, os_ outcomes (0/1). Returns dict bs, bsrel, bsres, bsunc, bss, bssrel, bssres
    (None where undefined)."""
    n = len(ps)
    if n == 0:
        return dict((k, None) for k in ("bs", "bsrel", "bsres", "bsunc", "bss", "bssrel", "bssres"))
    P = [Fraction(p) for p in ps]
    O = [Fraction(int(o)) for o in os_]
    obar = sum(O) / n
    bs = sum((p - o) ** 2 for p, o in zip(P, O)) / n
    bins = {}
    for p, o in zip(P, O):
        bins.setdefault(prob_bin(float(p)), []).append((p, o))
    rel = Fraction(0)
    res = Fraction(0)
    for k, items in bins.items():
        ob = sum(o for _, o in items) / len(items)
        rel += sum((p - ob) ** 2 for p, _ in items)
        res += len(items) * (ob - obar) ** 2
    rel /= n
    res /= n
    unc = obar * (1 - obar)
    out = {"bs": float(bs), "bsrel": float(rel), "bsres": float(res), "bsunc": float(unc)}
    if unc == 0:
        out.update(bss=None, bssrel=None, bssres=None)
    else:
        out.update(bss=float((unc - bs) / unc), bssrel=float(rel / unc), bssres=float(res / unc))
    return out


def ign0(ps, os_):
    if not ps:
        return None
    tot = 0.0
    for p, o in zip(ps, os_):
        q = p if o else 1 - p
        if q <= 0:
            return None
        tot += -math.log(q, 2)
    return tot / len(ps)


def spherical(ps, os_):
    if not ps:
        return None
    return math.fsum((p if o else 1 - p) / math.sqrt(p * p + (1 - p) * (1 - p)) for p, o in zip(ps, os_)) / len(ps)


def marginal_ratio(ps, os_):
    if not ps or sum(ps) == 0:
        return None
    return (sum(1 for o in os_ if o) / float(len(os_))) / (math.fsum(ps) / len(ps))


def quantile_score(obs, qs, tau):
    if not obs:
        return None
    return math.fsum((o - q) * (tau - (1 if o < q else 0)) for o, q in zip(obs, qs)) / len(obs)


def pit_hist_fractions(pits, nb=10):
    counts = [0] * nb
    for v in pits:
        if v < 0 or v > 1:
            continue
        k = min(int(math.floor(v * nb + 1e-12)), nb - 1)
        counts[k] += 1
    tot = sum(counts)
    return counts, tot


def pithist_dev(pits, nb=10):
    counts, tot = pit_hist_fractions(pits, nb)
    if not pits or tot == 0:
        return None
    fr = [c / float(tot) for c in counts]
    D = math.sqrt(sum((f - 1.0 / nb) ** 2 for f in fr) / nb)
    D0 = math.sqrt((1 - 1.0 / nb) / (len(pits) * nb))
    return D / D0


def pithist_slope(pits, nb=10):
    counts, tot = pit_hist_fractions(pits, nb)
    if tot == 0:
        return None
    fr = [c / float(tot) for c in counts]
    dx = 1.0 / nb
    d = [(fr[i + 1] - fr[i]) / dx for i in range(nb - 1)]
    return sum(d) / len(d)


def pithist_shape(pits, nb=10):
    counts, tot = pit_hist_fractions(pits, nb)
    if tot == 0:
        return None
    fr = [c / float(tot) for c in counts]
    dx = 1.0 / nb
    d = [(fr[i + 1] - fr[i]) / dx for i in range(nb - 1)]
    dd = [(d[i + 1] - d[i]) / dx for i in range(nb - 2)]
    return sum(dd) / len(dd)
