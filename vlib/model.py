"""Reference model. Written from the property statements and the program's help text.
It NEVER imports verif (nor numpy-based helpers of verif): plain Python on lists, dicts,
fractions and math.fsum, keyed by coordinates.
"""
import math
from fractions import Fraction

BIN_TYPES = ["below", "below=", "above", "above=", "within", "=within", "within=", "=within="]
WITHIN_TYPES = ["within", "=within", "within=", "=within="]


def isnan(x):
    return isinstance(x, float) and x != x


# --------------------------------------------------------------------------------------
# Events (C07)
# --------------------------------------------------------------------------------------
def in_event(bin_type, x, t0, t1=None):
    """Documented meaning of -b. Returns None for a missing value (belongs to no event)."""
    if x is None or isnan(x):
        return None
    if bin_type == "below":
        return x < t0
    if bin_type == "below=":
        return x <= t0
    if bin_type == "above":
        return x > t0
    if bin_type == "above=":
        return x >= t0
    if bin_type == "within":
        return t0 < x < t1
    if bin_type == "within=":
        return t0 < x <= t1
    if bin_type == "=within":
        return t0 <= x < t1
    if bin_type == "=within=":
        return t0 <= x <= t1
    raise ValueError(bin_type)


def events(bin_type, thresholds):
    """List of (t0, t1) pairs, one per event that -b bin_type -r thresholds denotes."""
    if bin_type in WITHIN_TYPES:
        return [(thresholds[i], thresholds[i + 1]) for i in range(len(thresholds) - 1)]
    return [(t, None) for t in thresholds]


def event_prob(bin_type, cdf0, cdf1=None):
    """Probability of the event given P(X<=t0) (and P(X<=t1) for the within family)."""
    if bin_type in ("below", "below="):
        return cdf0
    if bin_type in ("above", "above="):
        return 1 - cdf0
    return cdf1 - cdf0
