"""Compute scores through verif the way -type text/csv does (Standard._get_x_y), without printing."""
import numpy as np

DET = ["mae", "bias", "rmse", "stderror", "corr", "rankcorr", "kendallcorr", "nsec", "nnsec", "kge", "cmae", "rmsf",
       "dmb", "mbias", "ef", "derror", "leps", "alphaindex", "diff", "ratio", "obs", "fcst", "obsstddev", "fcststddev"]
DET_R = ["within"]
THR = ["a", "b", "c", "d", "n", "ets", "threat", "pc", "kss", "hss", "hit", "miss", "fa", "far", "biasfreq", "baserate",
       "fcstrate", "or", "lor", "yulesq", "dscore", "edi", "sedi", "eds", "seds"]
PTHR = ["bs", "bsrel", "bsres", "bsunc", "bss", "bssrel", "bssres", "ign0", "spherical", "marginalratio", "threshold"]
Q1 = ["quantile", "quantilescore", "quantilecoverage"]
Q2 = ["spread", "spreadskillratio"]
PIT = ["pit", "pithistdev", "pithistslope", "pithistshape"]
ALL = DET + DET_R + THR + PTHR + Q1 + Q2 + PIT
AGGREGATORS = ["mean", "median", "min", "max", "std", "variance", "iqr", "range", "count", "sum", "meanabs", "absmean"]
SUPPORTS_AGG = ["mae", "bias", "rmse", "cmae", "rmsf", "diff", "ratio", "obs", "fcst", "pit"]


def kind_of(name):
    for k, lst in (("det", DET), ("detr", DET_R), ("thr", THR), ("pthr", PTHR), ("q1", Q1), ("q2", Q2), ("pit", PIT)):
        if name in lst:
            return k
    raise KeyError(name)


def standard(metric_name, thresholds=None, bin_type=None, agg=None):
    import verif.aggregator
    import verif.metric
    import verif.output
    m = verif.metric.get(metric_name)
    if m is None:
        raise KeyError(metric_name)
    if agg is not None:
        m.aggregator = verif.aggregator.get(agg)
    pl = verif.output.Standard(m)
    if thresholds is not None:
        pl.thresholds = np.array(thresholds, float)
    if bin_type is not None:
        pl.bin_type = bin_type
    return pl


def scores(data, metric_name, axis, thresholds=None, bin_type=None, agg=None):
    """-> 2D array [slice, input] exactly as -type csv would print it."""
    import verif.axis
    pl = standard(metric_name, thresholds, bin_type, agg)
    ax = verif.axis.get(axis)
    pl.axis = ax
    x, y, _, _, _ = pl._get_x_y(data, ax)
    return np.array(y, float)


def args_for(spec, name, draw_threshold=None):
    """Thresholds/bin type that make metric `name` applicable to spec (or None when it is not).
    Uses thresholds/quantiles stored in every input."""
    allin = spec["inputs"] + ([spec["clim"]] if spec.get("clim") else [])
    k = kind_of(name)
    if k in ("det",):
        return {}
    if k == "detr":
        return {"thresholds": [1.0], "bin_type": "below"}
    if k == "thr":
        return {"thresholds": [0.25], "bin_type": "above"}
    if k == "pthr":
        th = None
        for d in allin:
            s = set(d.get("thresholds") or [])
            th = s if th is None else th & s
        if not th:
            return None
        return {"thresholds": [sorted(th)[0]], "bin_type": "below="}
    if k in ("q1", "q2"):
        qs = None
        for d in allin:
            s = set(d.get("quantiles") or [])
            qs = s if qs is None else qs & s
        qs = sorted(qs or [])
        if k == "q1":
            return {"thresholds": [qs[0]], "bin_type": "above"} if qs else None
        if len(qs) < 2 or name == "spreadskillratio" and (qs[0] <= 0 or qs[-1] >= 1):
            return None
        return {"thresholds": [qs[0], qs[-1]], "bin_type": "within"}
    if k == "pit":
        return {} if all(d.get("pit") is not None for d in allin) else None
    return None
