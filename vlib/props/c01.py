"""C01 - Fair comparison: every input is scored on the identical set of cases."""
import copy

from hypothesis import strategies as st

from .. import cmpx, dscheck, gen, model
from ..runner import Hyp

ID = "C01"
TITLE = "Fair comparison: every input is scored on the identical set of cases"
RULE = ("Generated datasets of 1-4 inputs (+ climatology in ~25%) built around a common core of times/lead times/"
        "locations with per-input extras, own ordering, own missing masks (dense, one cell, whole slice, whole field, "
        "none) and inputs without observations. For every request of a field menu (obs+fcst, obs, fcst, pit, obs+"
        "threshold(s), obs+quantile, quantiles+fcst+obs, ensemble member, other field), every input, drawn axes and "
        "every slice, verif.data.Data.get_scores is compared with a coordinate-keyed dictionary model (valid iff "
        "every requested field is present in every file). Also: identical valid masks and observations for all "
        "inputs with axis=All, value replacement in one input leaves the others bit-identical, and "
        "`-m mae -agg count -type csv` columns through the real readers (text/NetCDF). Non-trivial: >=2 inputs "
        "whose own missing masks differ on a common case and at least one valid case survives; distinct by hash of "
        "(dims, masks, request).")
ASSUMPTIONS = [
    "dimension values are unique within a file; the same location id carries the same metadata in every file",
    "observations of different files agree wherever both are present (the tool's documented premise)",
    "with a climatology file a request for Obs alone is judged in the only-if direction (the tool may drop more cases there)",
    "each all-axis (3D) request uses a freshly built Data object: history independence is C18's business",
]


def own_mask(d, spec, fields=("obs", "fcst")):
    """Set of coordinates where this input's own values are all present."""
    out = set()
    for a, ti in enumerate(d["ti"]):
        for b, li in enumerate(d["li"]):
            for c, si in enumerate(d["si"]):
                ok = True
                for f in fields:
                    if d.get(f) is not None and d[f][a][b][c] is None:
                        ok = False
                if ok:
                    out.add((spec["times"][ti], spec["leadtimes"][li], spec["locs"][si]["id"]))
    return out


def is_nontrivial(spec, ds):
    if len(spec["inputs"]) < 2 or ds.empty:
        return False
    common = set(ds.coords())
    masks = [own_mask(d, spec) & common for d in spec["inputs"]]
    if all(m == masks[0] for m in masks[1:]):
        return False
    return len(ds.cases([("obs",), ("fcst",)], 0)) > 0


def strategy(tier):
    big = tier == "thorough"

    @st.composite
    def s(draw):
        spec = draw(gen.dataset(max_inputs=4, clim="maybe", flavor="mix", core_max=3 if not big else 4,
                                extra_max=2, max_members=3))
        axes = draw(st.lists(st.sampled_from(gen.AXES_FOR_SCORES), min_size=2, max_size=3, unique=True))
        k = draw(st.integers(0, len(spec["inputs"]) - 1))
        delta = draw(st.sampled_from([-2.75, -1.0, 0.25, 1.0, 3.5]))
        opts = {}
        if draw(st.sampled_from([False, False, False, True])):
            # -obsrange: cases whose observation lies outside the inclusive range are discarded for every input
            vals = sorted(set(v for d in spec["inputs"] if d.get("obs") for pl in d["obs"] for row in pl for v in row if v is not None)) or [0.0]
            a, b = draw(st.sampled_from(vals)), draw(st.sampled_from(vals))
            opts["obs_range"] = [min(a, b), max(a, b)]
        if draw(st.sampled_from([False, False, True])):
            # -d / -tod / -t: selections that re-derive the per-file time indices
            from .c11 import time_opts
            opts.update(draw(time_opts(spec)))
        return {"spec": spec, "axes": axes, "alter": k, "delta": delta, "opts": opts}
    return s()


def _fields_label(F):
    return "+".join(f[0] for f in F)


def check_api(case, ctx):
    import numpy as np
    from .. import mat
    import verif.axis

    spec = case["spec"]
    axes = case.get("axes") or ([case["axis"]] if case.get("axis") not in (None, "all") else ["no", "time", "leadtime", "location"])
    opts = case.get("opts") or {}
    ds = model.DS(spec, opts)
    n_in = len(spec["inputs"])
    ctx.label("inputs=%d" % n_in)
    if opts.get("obs_range"):
        ctx.label("obsrange")
    if any(k in opts for k in ("dates", "tods", "times")):
        ctx.label("time-selection")
    if spec.get("clim"):
        ctx.label("has_clim")
    if any(d.get("obs") is None for d in spec["inputs"]):
        ctx.label("obs_shared")
    try:
        data = mat.make_data(spec, opts)
    except SystemExit:
        if ds.empty:
            ctx.label("empty_intersection")
            return
        ctx.fail("C01/dims/unexpected-exit", {"spec": spec}, "Data() exited although the inputs share times/leadtimes/locations")
        return
    if ds.empty:
        if any(k in opts for k in ("dates", "tods", "times")):
            ctx.label("empty_selection")      # what an empty selection must do is C03's subject
            return
        ctx.fail("C01/dims/no-exit", {"spec": spec}, "model intersection is empty but Data() was built")
        return
    nontriv = is_nontrivial(spec, ds)
    if nontriv:
        ctx.nt((spec["times"], spec["leadtimes"], [d["ti"] for d in spec["inputs"]], [d.get("fcst") for d in spec["inputs"]],
                [d.get("obs") for d in spec["inputs"]], axes))
        ctx.label("nontrivial")
        ctx.sample({"axes": axes, "inputs": [{"name": d["name"], "times": [spec["times"][i] for i in d["ti"]],
                                              "leadtimes": [spec["leadtimes"][i] for i in d["li"]],
                                              "locations": [spec["locs"][i]["id"] for i in d["si"]],
                                              "has_obs": d.get("obs") is not None,
                                              "fcst": d.get("fcst")} for d in spec["inputs"]],
                    "clim": bool(spec.get("clim"))})
    menu = gen.common_menu(spec)
    extra = {"opts": opts} if opts else {}
    dscheck.check_slices(ctx, ID, spec, ds, data, menu, axes, extra=extra)
    dscheck.check_all_axis(ctx, ID, spec, ds, menu[:6], lambda: mat.make_data(spec, opts), extra=extra)
    # the same requests on an object that has already served whole-array requests (as diagrams and the driver's
    # default thresholds do): an input without observations shares its donor's array, so nothing may be changed in it
    import verif.axis
    data3 = mat.make_data(spec, opts)
    for i in range(n_in):
        data3.get_scores(mat.vfield(("obs",)), i, verif.axis.All(), None)
        data3.get_scores(mat.vfield(("fcst",)), i, verif.axis.All(), None)
    dscheck.check_slices(ctx, ID + "/after-all-axis", spec, ds, data3, menu[:3], axes[:2], extra=extra)
    # independence: alter the non-missing forecast values of one input
    if n_in > 1:
        k = case.get("alter", 0) % n_in
        case = dict(case, delta=case.get("delta", 1.25))
        spec2 = copy.deepcopy(spec)
        d = spec2["inputs"][k]
        d["fcst"] = [[[None if v is None else v + case["delta"] for v in row] for row in pl] for pl in d["fcst"]]
        if d.get("ens") is not None:
            d["ens"] = [[[[None if v is None else v + case["delta"] for v in cell] for cell in row] for row in pl] for pl in d["ens"]]
        data2 = mat.make_data(spec2, opts)
        data1 = mat.make_data(spec, opts)
        for F in menu:
            vF = [mat.vfield(f) for f in F]
            for axis in axes:
                vax = mat.vaxis(axis)
                for kk in range(ds.n_slices(axis)):
                    for j in range(n_in):
                        if j == k:
                            continue
                        a1 = data1.get_scores(vF, j, vax, kk)
                        a2 = data2.get_scores(vF, j, vax, kk)
                        ctx.evals += 1
                        if any(not cmpx.arrays_equal(x, y) for x, y in zip(a1, a2)):
                            ctx.fail("C01/independence/" + dscheck.fields_label(F), {"spec": spec, "opts": opts, "alter": k, "delta": case["delta"], "fields": F, "input": j, "axis": axis, "slice": kk},
                                     "changing the non-missing forecasts of input %d changed the values returned for input %d" % (k, j))


def driver_strategy(tier):
    @st.composite
    def s(draw):
        spec = draw(gen.dataset(max_inputs=3, clim="maybe", flavor="det", core_max=3, extra_max=1))
        return {"spec": spec,
                "kind": draw(st.sampled_from(["text", "text", "netcdf"])),
                "token": draw(st.sampled_from(["-999", "nan", "NA", "missing"])),
                "ncmissing": draw(st.sampled_from(["fill", "-999", "nan", "big", "fill-9999", "missing_value"])),
                "axis": draw(st.sampled_from(gen.AXES_FOR_SCORES)),
                "clim_flag": draw(st.sampled_from(["-c", "-C"]))}
    return s()


_counter = [0]


def check_driver(case, ctx):
    """`-m mae -agg count -x <axis> -type csv` through the real readers: every column of a row is the
    model's number of valid (obs, fcst) cases of that slice, hence identical for all inputs."""
    import os
    from .. import drive, mat
    spec = case["spec"]
    _counter[0] += 1
    d = os.path.join(ctx.scratch, "d%d" % _counter[0])
    os.makedirs(d)
    if case["kind"] == "text":
        paths, cp = mat.write_files(spec, d, "text", missing_token=case["token"])
    else:
        paths, cp = mat.write_files(spec, d, "netcdf", missing=case["ncmissing"])
    opts = {"clim_type": "divide" if case["clim_flag"] == "-C" else "subtract"}
    ds = model.DS(spec, opts)
    args = list(paths) + ["-m", "mae", "-agg", "count", "-x", case["axis"], "-type", "csv"]
    if cp:
        args += [case["clim_flag"], cp]
    res = drive.run(args)
    ctx.label("driver/" + case["kind"])
    n_in = len(spec["inputs"])
    sub = {k: case[k] for k in case}
    if res.exc is not None:
        ctx.fail("C01/driver/exc/" + res.exc_key, sub, res.tb)
        return
    if ds.empty:
        if res.exit in (None, 0):
            ctx.fail("C01/driver/empty-no-error", sub, "no common dimension values but the run succeeded:\n" + res.stdout[-300:])
        return
    if res.exit not in (None, 0):
        ctx.fail("C01/driver/exit", sub, "unexpected error exit: " + " | ".join(res.error_lines()))
        return
    header, rows = drive.parse_csv(res.lines())
    nsl = ds.n_slices(case["axis"])
    if len(rows) != nsl:
        ctx.fail("C01/driver/rows", sub, "%d rows, model has %d slices" % (len(rows), nsl))
        return
    F = [("obs",), ("fcst",)]
    if is_nontrivial(spec, ds):
        ctx.nt(("driver", case["kind"], case["axis"], spec["times"], [dd.get("fcst") for dd in spec["inputs"]], [dd.get("obs") for dd in spec["inputs"]]))
    for k, row in enumerate(rows):
        got = [float(x) for x in row[-n_in:]]
        exp = [float(len(ds.cases(F, i, case["axis"], k))) for i in range(n_in)]
        exp = [float("nan") if e == 0 else e for e in exp]  # a slice without valid cases reports NaN
        if not all(cmpx.close(g, e) for g, e in zip(got, exp)):
            ctx.fail("C01/count", sub, "row %d (%s): counts %r, model %r" % (k, ",".join(row[:-n_in]), got, exp))
        elif len(set(repr(g) for g in got)) > 1:
            ctx.fail("C01/count/unequal", sub, "row %d: inputs scored on different numbers of cases %r" % (k, got))


def campaigns(tier):
    return [
        Hyp("api", strategy, check_api, quick=2400, thorough=60000, budget_quick=50, budget_thorough=1200),
        Hyp("driver", driver_strategy, check_driver, quick=1200, thorough=30000, budget_quick=50, budget_thorough=1200),
    ]
