"""C02 - Values are matched by coordinates, not by position or file order."""
import math
import os

from hypothesis import strategies as st

from .. import cmpx, dscheck, gen, model
from ..runner import Hyp

ID = "C02"
TITLE = "Values are matched by coordinates, not by position or file order"
RULE = ("Generated multi-input datasets in which every input lists its times, lead times and locations in its own "
        "random order with its own extra entries. Oracles: (cell) get_scores(axis=All)[t,l,s] equals the value the "
        "input's own file stores at (times[t], leadtimes[l], locations[s].id) per the dictionary model; "
        "(permute-entries) re-permuting the dimension entries of every in-memory input / the rows and columns of "
        "every text file / the entries of every NetCDF file leaves all API results and csv output unchanged; "
        "(permute-inputs) permuting the files on the command line permutes the csv columns and nothing else; "
        "(cell-csv) mae per slice through the real readers equals the model. Non-trivial: >=2 inputs and an axis "
        "with >=2 common values that two inputs list in different relative order; distinct by hash of the index "
        "lists and values.")
ASSUMPTIONS = [
    "dimension values are unique within a file (with duplicates the tool documents 'using the first value')",
    "the same location id carries the same lat/lon/elev in every file",
    "observations of different files agree wherever both are present",
]


def _rel_order_differs(spec, ds):
    ins = spec["inputs"]
    if len(ins) < 2:
        return False
    for key, uni, common in (("ti", spec["times"], ds.times), ("li", spec["leadtimes"], ds.leads),
                             ("si", [l["id"] for l in spec["locs"]], ds.ids)):
        if len(common) < 2:
            continue
        cs = set(common)
        orders = []
        for d in ins:
            orders.append([uni[i] for i in d[key] if uni[i] in cs])
        if any(o != orders[0] for o in orders[1:]):
            return True
    return False


def strategy(tier):
    @st.composite
    def s(draw):
        spec = draw(gen.dataset(max_inputs=3, min_inputs=1, clim="maybe", flavor="mix", core_max=3, extra_max=2,
                                allow_drop=False, max_members=2, own_obs=True))
        perms = []
        for d in spec["inputs"] + ([spec["clim"]] if spec["clim"] else []):
            perms.append([list(draw(st.permutations(range(len(d[k]))))) for k in ("ti", "li", "si")])
        axes = draw(st.lists(st.sampled_from(gen.AXES_FOR_SCORES), min_size=2, max_size=2, unique=True))
        opts = {}
        if draw(st.sampled_from([False, False, True])):
            from .c11 import time_opts
            opts = draw(time_opts(spec))      # -d / -tod / -t re-derive the per-file time indices
        T = None
        if draw(st.sampled_from([False, True])):
            T = [draw(st.sampled_from([1, 2, 6, 7, 24, 25, 49, 100000])), draw(st.sampled_from(["leadtime", "time", "time"])),
                 draw(st.sampled_from(["mean", "sum", "max", "min", "change"]))]
        return {"spec": spec, "perms": perms, "axes": axes, "opts": opts, "T": T}
    return s()


def permuted_spec(spec, perms):
    spec2 = dict(spec)
    spec2["inputs"] = [dscheck.permute_input(d, *perms[i]) for i, d in enumerate(spec["inputs"])]
    if spec.get("clim"):
        spec2["clim"] = dscheck.permute_input(spec["clim"], *perms[len(spec["inputs"])])
    return spec2


def check_api(case, ctx):
    from .. import mat
    import verif.axis
    spec = case["spec"]
    opts = case.get("opts") or {}
    ds = model.DS(spec, opts)
    if ds.empty:
        ctx.label("empty")
        return
    n_in = len(spec["inputs"])
    ctx.label("inputs=%d" % n_in)
    if opts:
        ctx.label("time-selection")
    extra = {"opts": opts} if opts else {}
    if _rel_order_differs(spec, ds):
        ctx.label("nontrivial")
        ctx.nt(([d["ti"] for d in spec["inputs"]], [d["li"] for d in spec["inputs"]], [d["si"] for d in spec["inputs"]],
                spec["times"], [d["fcst"] for d in spec["inputs"]]))
        ctx.sample({"times": spec["times"], "leadtimes": spec["leadtimes"], "ids": [l["id"] for l in spec["locs"]],
                    "file_order": [{"ti": d["ti"], "li": d["li"], "si": d["si"]} for d in spec["inputs"]]})
    menu = gen.common_menu(spec)
    # cell: every value comes from its own coordinates
    dscheck.check_all_axis(ctx, ID, spec, ds, menu[:8], lambda: mat.make_data(spec, opts), extra=extra)
    # permute-entries (in-memory)
    if "perms" not in case:
        case = dict(case, perms=[[list(reversed(range(len(d[k])))) for k in ("ti", "li", "si")] for d in spec["inputs"] + ([spec["clim"]] if spec.get("clim") else [])],
                    axes=[case["axis"]] if case.get("axis") not in (None, "all") else ["no", "time"])
    spec2 = permuted_spec(spec, case["perms"])
    d1 = mat.make_data(spec, opts)
    d2 = mat.make_data(spec2, opts)
    for F in menu:
        vF = [mat.vfield(f) for f in F]
        for axis in case["axes"]:
            vax = mat.vaxis(axis)
            for k in range(ds.n_slices(axis)):
                for i in range(n_in):
                    a1 = d1.get_scores(vF, i, vax, k)
                    a2 = d2.get_scores(vF, i, vax, k)
                    ctx.evals += 1
                    if any(not cmpx.arrays_equal(x, y) for x, y in zip(a1, a2)):
                        ctx.fail("C02/permute-entries/api/" + dscheck.fields_label(F),
                                 dict(extra, spec=spec, perms=case["perms"], fields=F, axis=axis, slice=k, input=i),
                                 "re-ordering the dimension entries of the inputs changed the result")
    # alone-vs-together: what an input contributes at a coordinate is what its own file stores there (with -T: aggregated over
    # its own series), whatever the other inputs contain - so wherever the joint run keeps a forecast value, it is the value
    # the input gives when it is read alone with the same dimensions selected explicitly
    if n_in >= 2 and not spec.get("clim"):
        import numpy as np
        import verif.aggregator
        import verif.data
        T = case.get("T")
        kwT = {}
        if T:
            kwT = dict(dim_agg_length=T[0], dim_agg_axis=verif.axis.get(T[1]), dim_agg_method=verif.aggregator.get(T[2]))
            ctx.label("alone-vs-together/-T")
        ins, _ = mat.mem_inputs(spec)
        together = verif.data.Data(ins, **dict(mat.data_kwargs(opts), **kwT))
        for i in range(n_in):
            ins_i, _ = mat.mem_inputs(spec)
            alone = verif.data.Data([ins_i[i]], **kwT)       # all of its own dimensions; compared coordinate by coordinate
            a_t = together.get_scores(verif.field.Fcst(), i, verif.axis.All(), None)
            a_a = alone.get_scores(verif.field.Fcst(), 0, verif.axis.All(), None)
            it = [list(alone.times).index(t) for t in together.times]
            il = [list(alone.leadtimes).index(t) for t in together.leadtimes]
            isx = [[l.id for l in alone.locations].index(l.id) for l in together.locations]
            a_a = a_a[it][:, il][:, :, isx]
            ctx.evals += 1
            if a_t.shape != a_a.shape:
                ctx.fail("C02/alone-vs-together/shape", dict(extra, spec=spec, T=T, input=i), "%r together, %r alone" % (a_t.shape, a_a.shape))
                continue
            keep = ~np.isnan(a_t)
            if not np.allclose(a_t[keep], a_a[keep], rtol=1e-6, atol=1e-9, equal_nan=False):
                bad = np.argwhere(keep & ~np.isclose(a_t, a_a, rtol=1e-6, atol=1e-9))[0]
                ctx.fail("C02/alone-vs-together/fcst" + ("/-T" if T else ""), dict(extra, spec=spec, T=T, input=i),
                         "input %d at (time %r, lead %r, location %r): %r when verified with the other inputs, %r when read alone (-T %r)"
                         % (i, together.times[bad[0]], together.leadtimes[bad[1]], together.locations[bad[2]].id, a_t[tuple(bad)], a_a[tuple(bad)], T))
    for F in menu[:4]:
        vF = [mat.vfield(f) for f in F]
        for i in range(n_in):
            a1 = mat.make_data(spec, opts).get_scores(vF, i, verif.axis.All(), None)
            a2 = mat.make_data(spec2, opts).get_scores(vF, i, verif.axis.All(), None)
            ctx.evals += 1
            if any(not cmpx.arrays_equal(x, y) for x, y in zip(a1, a2)):
                ctx.fail("C02/permute-entries/api-all/" + dscheck.fields_label(F),
                         {"spec": spec, "perms": case["perms"], "fields": F, "input": i},
                         "re-ordering the dimension entries of the inputs changed the 3D result")


def files_strategy(tier):
    @st.composite
    def s(draw):
        spec = draw(gen.dataset(max_inputs=3, min_inputs=1, clim=False, flavor=draw(st.sampled_from(["det", "det", "prob", "full"])),
                                core_max=3, extra_max=1, allow_drop=False, allow_obsless=False, max_members=2))
        kind = draw(st.sampled_from(["text", "text", "netcdf"]))
        perms = []
        shuffles = []
        for d in spec["inputs"]:
            perms.append([list(draw(st.permutations(range(len(d[k]))))) for k in ("ti", "li", "si")])
            nrows = len(d["ti"]) * len(d["li"]) * len(d["si"])
            shuffles.append({"rows": list(draw(st.permutations(range(nrows)))),
                             "cols": list(draw(st.permutations(range(24))))})
        order = list(draw(st.permutations(range(len(spec["inputs"])))))
        return {"spec": spec, "kind": kind, "perms": perms, "shuffles": shuffles, "order": order,
                "axis": draw(st.sampled_from(gen.AXES_FOR_SCORES)),
                "metric": draw(st.sampled_from(["mae", "bias", "obs", "fcst", "bs", "bs", "quantilescore", "pit"]))}
    return s()


_counter = [0]


def _mean(xs):
    return math.fsum(xs) / len(xs) if xs else float("nan")


def check_files(case, ctx):
    from .. import drive, mat
    spec = case["spec"]
    ds = model.DS(spec)
    if ds.empty:
        return
    _counter[0] += 1
    base = os.path.join(ctx.scratch, "c%d" % _counter[0])
    n_in = len(spec["inputs"])
    ctx.label("files/" + case["kind"])
    if _rel_order_differs(spec, ds):
        ctx.nt(("files", case["kind"], [d["ti"] for d in spec["inputs"]], [d["li"] for d in spec["inputs"]],
                [d["si"] for d in spec["inputs"]], [d["fcst"] for d in spec["inputs"]], case["axis"]))
    variants = {}
    spec2 = permuted_spec(spec, case["perms"])
    for tag, sp in (("orig", spec), ("perm", spec2)):
        dd = os.path.join(base, tag)
        os.makedirs(dd)
        paths = []
        for i, d in enumerate(sp["inputs"]):
            if case["kind"] == "text":
                p = os.path.join(dd, d["name"] + ".txt")
                if tag == "perm":
                    sh = case["shuffles"][i]
                    hdr, _ = mat.text_rows(d, sp)
                    cols = [c for c in sh["cols"] if c < len(hdr)]
                    cols = cols + [c for c in range(len(hdr)) if c not in cols]
                    mat.write_text(d, sp, p, row_order=sh["rows"], col_order=cols)
                else:
                    mat.write_text(d, sp, p)
            else:
                p = os.path.join(dd, d["name"] + ".nc")
                mat.write_netcdf(d, sp, p)
            paths.append(p)
        variants[tag] = paths
    metric = case["metric"]
    margs = []
    if metric in ("bs", "quantilescore", "pit"):
        from .. import mrun
        a = mrun.args_for(spec, metric)
        if a is None:
            metric = "mae"
        elif a.get("thresholds") is not None:
            margs = ["-q" if metric == "quantilescore" else "-r", ",".join(repr(float(t)) for t in a["thresholds"])]
    ctx.label("files/metric=" + metric)
    tail = ["-m", metric, "-x", case["axis"], "-type", "csv"] + margs
    r0 = drive.run(variants["orig"] + tail)
    r1 = drive.run(variants["perm"] + tail)
    r2 = drive.run([variants["orig"][i] for i in case["order"]] + tail)
    ctx.evals += 2
    sub = dict(case)
    for r in (r0, r1, r2):
        if r.exc is not None:
            ctx.fail("C02/files/exc/" + r.exc_key, sub, r.tb)
            return
        if r.exit not in (None, 0):
            ctx.fail("C02/files/exit", sub, " | ".join(r.error_lines()))
            return
    h0, rows0 = drive.parse_csv(r0.lines())
    h1, rows1 = drive.parse_csv(r1.lines())
    h2, rows2 = drive.parse_csv(r2.lines())
    if (h0, rows0) != (h1, rows1):
        ctx.fail("C02/permute-entries/" + case["kind"], sub, "csv changed after permuting rows/columns/entries inside the files:\n%s\n---\n%s" % ("\n".join(r0.lines()[:6]), "\n".join(r1.lines()[:6])))
    # permute-inputs: same descriptor columns, input columns permuted accordingly
    nd = len(h0) - n_in
    ok = len(h2) == len(h0) and h2[:nd] == h0[:nd] and len(rows2) == len(rows0)
    if ok:
        for j, src in enumerate(case["order"]):
            if h2[nd + j] != h0[nd + src]:
                ok = False
            for ra, rb in zip(rows0, rows2):
                if rb[:nd] != ra[:nd] or rb[nd + j] != ra[nd + src]:
                    ok = False
    if not ok:
        ctx.fail("C02/permute-inputs", sub, "permuting the input files did not simply permute the csv columns:\n%s\n---\n%s" % ("\n".join(r0.lines()[:6]), "\n".join(r2.lines()[:6])))
    # permute-inputs on a table with several columns per file (-m obsfcst -q): a column is identified by its label
    # ("<file> <level>%"), and holds the same numbers wherever the file stands on the command line
    qs = None
    for d in spec["inputs"]:
        qq = set(d.get("quantiles") or [])
        qs = qq if qs is None else qs & qq
    qs = sorted(qs or [])
    if n_in >= 2 and qs and case["axis"] not in ("obs", "fcst", "threshold"):
        qtail = ["-m", "obsfcst", "-q", ",".join(repr(float(q)) for q in qs[:2]), "-x", case["axis"], "-type", "csv"]
        q0 = drive.run(variants["orig"] + qtail)
        q2 = drive.run([variants["orig"][i] for i in case["order"]] + qtail)
        ctx.evals += 2
        if all(r.exc is None and r.exit in (None, 0) for r in (q0, q2)):
            ctx.label("files/obsfcst-q/%d-levels" % len(qs[:2]))
            ha, ra = drive.parse_csv(q0.lines())
            hb, rb = drive.parse_csv(q2.lines())
            cols_a = dict((h, [row[j] for row in ra]) for j, h in enumerate(ha))
            cols_b = dict((h, [row[j] for row in rb]) for j, h in enumerate(hb))
            if len(cols_a) == len(ha) and len(cols_b) == len(hb):      # labels are unique (file names differ)
                if sorted(cols_a) != sorted(cols_b):
                    ctx.fail("C02/permute-inputs/obsfcst", sub, "column labels changed with the order of the files: %r vs %r" % (ha, hb))
                else:
                    for h in ha:
                        if cols_a[h] != cols_b[h]:
                            ctx.fail("C02/permute-inputs/obsfcst", sub, "column %r holds other numbers when the files are given in another order:\n%s\n---\n%s"
                                     % (h, "\n".join(q0.lines()[:5]), "\n".join(q2.lines()[:5])))
                            break
            # ... and each file's column holds that file's own stored quantile (mean over the slice's valid cases)
            nd2 = len(ha) - 1 - n_in - n_in * len(qs[:2])
            for i, pth in enumerate(variants["orig"]):
                for q in qs[:2]:
                    lab = "%s %g%%" % (os.path.basename(pth), q * 100)
                    if lab not in cols_a:
                        ctx.fail("C02/obsfcst/label", sub, "no column labelled %r in %r" % (lab, ha))
                        continue
                    for k in range(min(len(ra), ds.n_slices(case["axis"]))):
                        cs = ds.cases([("q", q), ("obs",)], i, case["axis"], k)    # the diagram pairs every line with the observations
                        ref = _mean([c[0] for c in cs])
                        if not cmpx.printed_ok(float(cols_a[lab][k]), ref, 6):
                            ctx.fail("C02/obsfcst/own-values", sub, "column %r row %d: %r, the file's own %g-quantile averaged over the slice's valid (quantile, observation) cases is %r"
                                     % (lab, k, cols_a[lab][k], q, ref))
                            break
    # cell-csv: values against the model
    axis = case["axis"]
    if len(rows0) != ds.n_slices(axis):
        ctx.fail("C02/cell-csv/rows", sub, "%d rows, model %d slices" % (len(rows0), ds.n_slices(axis)))
        return
    if metric not in ("mae", "bias", "obs", "fcst"):
        return          # probabilistic scores: judged by the permutation relations above (their definitions are C08's)
    for k, row in enumerate(rows0):
        for i in range(n_in):
            m = metric
            if m in ("mae", "bias"):
                cs = ds.cases([("obs",), ("fcst",)], i, axis, k)
                exp = _mean([abs(o - f) for o, f in cs]) if m == "mae" else _mean([f - o for o, f in cs])
            elif m == "obs":
                exp = _mean([c[0] for c in ds.cases([("obs",)], i, axis, k)])
            else:
                exp = _mean([c[0] for c in ds.cases([("fcst",)], i, axis, k)])
            got = float(row[nd + i])
            if not cmpx.printed_ok(got, exp, 6, rel=2e-6):
                ctx.fail("C02/cell-csv/" + m, sub, "row %d input %d: csv %r, model %r" % (k, i, got, exp))


def campaigns(tier):
    return [
        Hyp("api", strategy, check_api, quick=1600, thorough=40000, budget_quick=50, budget_thorough=1200),
        Hyp("files", files_strategy, check_files, quick=800, thorough=20000, budget_quick=50, budget_thorough=1200),
    ]
