"""C03 - Verified dimensions = intersection of inputs and the user's subset."""
import math
import os

from hypothesis import strategies as st

from .. import cmpx, dscheck, gen, model
from ..runner import Hyp

ID = "C03"
TITLE = "Verified dimensions = intersection of inputs and the user's subset"
RULE = ("Generated datasets (1-3 inputs, optional climatology) x a random subset (0-4) of the subsetting options "
        "-t -d -tod -o -l -lx -latrange -lonrange -elevrange (+ -obsrange), with values drawn relative to the data: "
        "members and non-members, range end points exactly on / just inside / just outside a station's coordinate, "
        "reversed ranges, dates selecting a strict subset of initialisation times. Oracles: Data.times/leadtimes/"
        "locations and --list-times/--list-dates/--list-locations and csv row descriptors equal the model's ascending "
        "intersection-and-subset; obsrange restricts exactly the requests that contain Obs; an empty selection ends in "
        "an error exit or only NaN. Non-trivial: >=2 options active and the selection is a strict non-empty subset of "
        "the unsubsetted intersection, or the selection is empty; distinct by hash of (dims, options).")
ASSUMPTIONS = [
    "-tod is exercised with whole-hour initialisation times (hour of day of 01:30 is not specified)",
    "-d values are valid calendar dates; location metadata of an id is identical in every file",
    "longitudes lie in [-180, 180] (a lone -latrange implies the full longitude range)",
    "an uncaught exception on an empty selection is counted here and judged by C19",
]

OPT_NAMES = ["times", "dates", "tods", "leadtimes", "locations", "locations_x", "lat_range", "lon_range", "elev_range", "obs_range"]


def subset(draw, values, extra):
    pick = [v for v in values if draw(st.booleans())]
    if draw(st.sampled_from([False, False, False, True])):
        pick.append(extra)
    if not pick and values and draw(st.booleans()):
        pick = [values[0]]
    return pick


def range_from(draw, values):
    cands = sorted(set([v + d for v in values for d in (0, 0.125, -0.125)]))
    a = draw(st.sampled_from(cands))
    b = draw(st.sampled_from(cands))
    if a > b and draw(st.sampled_from([True, True, True, False])):
        a, b = b, a
    return [a, b]


@st.composite
def case_strategy(draw, tier="quick"):
    spec = draw(gen.dataset(max_inputs=3, clim="maybe", flavor="det", core_max=3, extra_max=2, allow_drop=True, pre1970=True))
    n_opts = draw(st.sampled_from([0, 1, 2, 2, 2, 3, 3, 4]))
    names = draw(st.lists(st.sampled_from(OPT_NAMES), min_size=n_opts, max_size=n_opts, unique=True))
    opts = {}
    times = sorted(spec["times"])
    ids = [l["id"] for l in spec["locs"]]
    for n in names:
        if n == "times":
            opts[n] = [float(t) for t in subset(draw, times, 86400 * 12345)]
        elif n == "dates":
            ds = sorted(set(model.unix_to_date(t) for t in times))
            opts[n] = subset(draw, ds, 19850704)
        elif n == "tods":
            opts[n] = subset(draw, [0, 6, 12, 18, 23], 3)
        elif n == "leadtimes":
            opts[n] = subset(draw, sorted(spec["leadtimes"]), 99.0)
        elif n == "locations":
            opts[n] = [float(i) for i in subset(draw, ids, 123456)]
        elif n == "locations_x":
            opts[n] = [float(i) for i in subset(draw, ids, 654321)]
        elif n == "lat_range":
            opts[n] = range_from(draw, [l["lat"] for l in spec["locs"]])
        elif n == "lon_range":
            opts[n] = range_from(draw, [l["lon"] for l in spec["locs"]])
        elif n == "elev_range":
            opts[n] = range_from(draw, [l["elev"] for l in spec["locs"]])
        elif n == "obs_range":
            vals = [v for d in spec["inputs"] if d.get("obs") for pl in d["obs"] for row in pl for v in row if v is not None] or [0.0]
            opts[n] = range_from(draw, vals)
    if spec.get("clim"):
        opts["clim_type"] = draw(st.sampled_from(["subtract", "divide"]))
    axes = draw(st.lists(st.sampled_from(["no", "time", "leadtime", "location", "month", "leadtimeday", "lat"]), min_size=2, max_size=2, unique=True))
    return {"spec": spec, "opts": opts, "axes": axes, "kind": draw(st.sampled_from(["text", "netcdf"]))}


def classify(ctx, case, ds, base):
    n_opts = len([k for k in case["opts"] if k != "clim_type"])
    ctx.label("nopts=%d" % n_opts)
    for k in case["opts"]:
        if k != "clim_type":
            ctx.label("opt=" + k)
    if base.empty:
        ctx.label("empty_intersection")
        return
    strict = (ds.times, ds.leads, ds.ids) != (base.times, base.leads, base.ids)
    if ds.empty:
        ctx.label("empty_selection")
        ctx.nt(("empty", case["opts"], base.times, base.leads, base.ids))
    elif strict and n_opts >= 2:
        ctx.label("strict_subset_2opts")
        ctx.nt((case["opts"], base.times, base.leads, base.ids))
        ctx.sample({"options": case["opts"], "intersection": {"times": base.times, "leadtimes": base.leads, "ids": base.ids},
                    "selected": {"times": ds.times, "leadtimes": ds.leads, "ids": ds.ids}})


def check_api(case, ctx):
    import numpy as np
    from .. import mat
    spec, opts = case["spec"], case["opts"]
    ds = model.DS(spec, opts)
    base = model.DS(spec, {})
    classify(ctx, case, ds, base)
    sub = {"spec": spec, "opts": opts}
    try:
        data = mat.make_data(spec, opts)
    except SystemExit:
        if not ds.empty:
            ctx.fail("C03/dims/unexpected-exit", sub, "Data() stopped with an error although the model selection is times=%r leadtimes=%r ids=%r" % (ds.times, ds.leads, ds.ids))
        return
    got = ([int(t) for t in data.times], [float(l) for l in data.leadtimes], [loc.id for loc in data.locations])
    if ds.empty:
        exp_t = ds.times if (ds.leads and ds.ids) else None
    if not ds.empty or (ds.leads and ds.ids and base.times):
        exp = (ds.times, ds.leads, ds.ids)
        # when only -d/-tod emptied the times, verif keeps an object with zero times
        for name, g, e in zip(("times", "leadtimes", "locations"), got, exp):
            if list(g) != list(e):
                ctx.fail("C03/dims/" + name, sub, "%s: verif %r, model %r" % (name, g, e))
        for name, g in zip(("times", "leadtimes", "locations"), got):
            if any(isinstance(x, float) and math.isnan(x) for x in g) or list(g) != sorted(set(g)):
                ctx.fail("C03/dims/order/" + name, sub, "%s not ascending/unique/non-missing: %r" % (name, g))
    menu = [[("obs",), ("fcst",)], [("obs",)], [("fcst",)]]
    if ds.empty:
        # nothing selected: no numeric score may come out
        for F in menu:
            vF = [mat.vfield(f) for f in F]
            for i in range(len(spec["inputs"])):
                try:
                    arrs = data.get_scores(vF, i, mat.vaxis("no"), 0)
                except SystemExit:
                    continue
                ctx.evals += 1
                if any(np.isfinite(np.asarray(a, float)).any() for a in arrs):
                    ctx.fail("C03/empty/numeric", dict(sub, fields=F, input=i), "empty selection but get_scores returned numbers %r" % (arrs,))
        return
    # obsrange (and everything else) against the model's valid cases
    dscheck.check_slices(ctx, ID, spec, ds, data, menu, case.get("axes") or [case.get("axis", "no")], extra={"opts": opts})
    if "obs_range" in opts:
        ctx.label("obsrange_checked")


def render(opts, cp):
    def nums(vs, ints=False):
        return ",".join(("%d" % v) if (ints or float(v) == int(v)) else repr(float(v)) for v in vs)
    args = []
    flag = {"times": "-t", "dates": "-d", "tods": "-tod", "leadtimes": "-o", "locations": "-l", "locations_x": "-lx",
            "lat_range": "-latrange", "lon_range": "-lonrange", "elev_range": "-elevrange", "obs_range": "-obsrange"}
    for k, v in opts.items():
        if k == "clim_type":
            continue
        if len(v) == 0:
            return None  # an empty list cannot be written on the command line
        args += [flag[k], nums(v)]
    if cp:
        args += ["-c" if opts.get("clim_type", "subtract") == "subtract" else "-C", cp]
    return args


_counter = [0]


def check_driver(case, ctx):
    from .. import drive, mat
    spec, opts = case["spec"], case["opts"]
    ds = model.DS(spec, opts)
    base = model.DS(spec, {})
    _counter[0] += 1
    d = os.path.join(ctx.scratch, "c%d" % _counter[0])
    os.makedirs(d)
    paths, cp = mat.write_files(spec, d, case.get("kind", "text"))
    oargs = render(opts, cp)
    if oargs is None:
        ctx.label("unrenderable")
        return
    classify(ctx, case, ds, base)
    sub = dict(case)
    n_in = len(spec["inputs"])

    def run(extra):
        r = drive.run(paths + oargs + extra)
        ctx.evals += 1
        return r

    listing = [("--list-times", ["%d" % t for t in ds.times]),
               ("--list-dates", ["%d %02d:%02d:%02d" % (model.unix_to_date(t), t % 86400 // 3600, t % 3600 // 60, t % 60) for t in ds.times]),
               ("--list-locations", ["%6d %7.2f %7.2f %7.1f" % (i, ds.meta[i]["lat"], ds.meta[i]["lon"], ds.meta[i]["elev"]) for i in ds.ids])]
    for flag, exp in listing:
        r = run([flag])
        if r.exc is not None:
            ctx.label("exception@" + r.exc_key)
            if not ds.empty:
                ctx.fail("C03/driver/exc/" + r.exc_key, dict(sub, flag=flag), r.tb)
            continue
        if r.exit not in (None, 0):
            if not ds.empty:
                ctx.fail("C03/list/unexpected-exit", dict(sub, flag=flag), " | ".join(r.error_lines()))
            continue
        if ds.empty and not (ds.leads and ds.ids and base.times):
            ctx.fail("C03/list/no-error", dict(sub, flag=flag), "selection is empty (times=%r leadtimes=%r ids=%r) but %s succeeded" % (ds.times, ds.leads, ds.ids, flag))
            continue
        lines = [ln for ln in r.lines() if ln.strip() != ""]
        if flag == "--list-locations":
            lines = lines[1:]
        if lines != exp:
            ctx.fail("C03/list/" + flag.strip("-"), dict(sub, flag=flag), "%s printed %r, model %r" % (flag, lines[:8], exp[:8]))
    # row descriptors of csv
    for axis in ("time", "leadtime", "location"):
        r = run(["-m", "mae", "-x", axis, "-type", "csv"])
        if r.exc is not None:
            ctx.label("exception@" + r.exc_key)
            if not ds.empty:
                ctx.fail("C03/driver/exc/" + r.exc_key, dict(sub, axis=axis), r.tb)
            continue
        if r.exit not in (None, 0):
            if not ds.empty:
                ctx.fail("C03/csv/unexpected-exit", dict(sub, axis=axis), " | ".join(r.error_lines()))
            continue
        header, rows = drive.parse_csv(r.lines())
        if ds.empty:
            for row in rows:
                for cell in row[-n_in:]:
                    if not math.isnan(float(cell)):
                        ctx.fail("C03/empty/numeric-csv", dict(sub, axis=axis), "empty selection but csv reports %r" % row)
            continue
        if axis == "time":
            exp = [[model.format_time_label("time", t)] for t in ds.times]
            nd = 1
        elif axis == "leadtime":
            exp = [[l] for l in ds.leads]
            nd = 1
        else:
            exp = [[i, ds.meta[i]["lat"], ds.meta[i]["lon"], ds.meta[i]["elev"]] for i in ds.ids]
            nd = 4
        got = []
        for row in rows:
            if axis == "time":
                got.append([row[0]])
            else:
                got.append([float(x) for x in row[:nd]])
        if got != exp:
            ctx.fail("C03/csv-rows/" + axis, dict(sub, axis=axis), "row descriptors %r, model %r" % (got[:6], exp[:6]))
        else:
            # obsrange through the driver: mae of the selected cases
            for k, row in enumerate(rows):
                for i in range(n_in):
                    cs = ds.cases([("obs",), ("fcst",)], i, axis, k)
                    e = math.fsum(abs(o - f) for o, f in cs) / len(cs) if cs else float("nan")
                    g = float(row[nd + i])
                    if not cmpx.printed_ok(g, e, 6, rel=2e-6):
                        ctx.fail("C03/csv-values", dict(sub, axis=axis), "row %d input %d: mae %r, model %r" % (k, i, g, e))


def campaigns(tier):
    return [
        Hyp("api", lambda t: case_strategy(t), check_api, quick=3200, thorough=80000, budget_quick=45, budget_thorough=1200),
        Hyp("driver", lambda t: case_strategy(t), check_driver, quick=640, thorough=16000, budget_quick=50, budget_thorough=1200),
    ]
