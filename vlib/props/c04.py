"""C04 - Missing data never enters a score as a number."""
import copy
import math
import os

from hypothesis import strategies as st

from .. import cmpx, gen, model, mrun
from ..runner import Enum, Hyp

ID = "C04"
TITLE = "Missing data never enters a score as a number"
RULE = ("(insert, metamorphic, all 70 metrics) dataset X+ = X plus one extra location / time / lead time whose cases "
        "carry ordinary numbers except that in one input per cell every field is missing: every score pooled over the "
        "extra slice (-x no and the two other dimensions, their derived axes) is bit-identical for X and X+, the "
        "extra slice itself reports NaN for every metric and input, and no metric raises. (encode) the same dataset "
        "written as text with each missing token and as NetCDF with fill/-999/NaN/1e36 reads back with NaN exactly at "
        "the missing cells and gives identical csv scores. (readers) util.clean and Text._clean map every listed "
        "encoding to NaN and every other value to itself. (quotient) with -C and zeros planted in the climatology every score is "
        "bit-identical to the score of the dataset in which the climatology is missing at those cells. (ensemble-members) the "
        "event probability derived from an ensemble with partially missing members is the fraction among the members present. Non-trivial: the inserted slice has at least one cell with "
        "ordinary numbers in the non-victim inputs and X has a valid case left; distinct by hash of (X, insertion).")
ASSUMPTIONS = [
    "scores are computed the way -type csv does (verif.output.Standard._get_x_y) on in-memory inputs for the insert oracle",
    "values above 1e30 are a NetCDF encoding of missing (util.clean); in text files the encodings are -999, nan and non-numeric tokens",
    "non-finite climatology quotients: metamorphic (quotient campaign) here, against the reference model in C14",
]

POOL_AXES = {
    "location": ["no", "time", "leadtime", "month", "leadtimeday", "timeofday", "year"],
    "time": ["no", "leadtime", "location", "leadtimeday", "lat"],
    "leadtime": ["no", "time", "location", "month", "elev"],
}


def insert_strategy(tier):
    @st.composite
    def s(draw):
        spec = draw(gen.dataset(max_inputs=3, clim=False, flavor="full", core_max=2, extra_max=1, allow_drop=False,
                                max_members=3, allow_all_missing=False))
        n_in = len(spec["inputs"])
        dim = draw(st.sampled_from(["location", "time", "leadtime"]))
        victims = draw(st.lists(st.integers(0, n_in - 1), min_size=4, max_size=4))
        fills = draw(st.lists(st.integers(-40, 40), min_size=6, max_size=6))
        pos = draw(st.integers(0, 3))
        if tier == "thorough":
            metrics = list(mrun.ALL)
        else:
            metrics = draw(st.lists(st.sampled_from(mrun.ALL), min_size=8, max_size=8, unique=True))
        agg = draw(st.sampled_from(mrun.AGGREGATORS))
        return {"spec": spec, "dim": dim, "victims": victims, "fills": fills, "pos": pos, "metrics": metrics, "agg": agg}
    return s()


def extend(spec, dim, victims, fills, pos):
    """X+ : one more entry on `dim` in every input. In each cell of the new slice one input (the victim)
    has every field missing; the others carry ordinary numbers."""
    sp = copy.deepcopy(spec)
    if dim == "location":
        sp["locs"].append({"id": 777, "lat": 12.5, "lon": -33.25, "elev": 101.0})
        key, axis_i, new = "si", 2, len(sp["locs"]) - 1
    elif dim == "time":
        sp["times"].append(86400 * 20000 + 3600 * 7)   # 2024-10-04 07:00, not in any pool
        key, axis_i, new = "ti", 0, len(sp["times"]) - 1
    else:
        sp["leadtimes"].append(999.0)
        key, axis_i, new = "li", 1, len(sp["leadtimes"]) - 1
    n_in = len(sp["inputs"])
    obs_inputs = [i for i, d in enumerate(sp["inputs"]) if d.get("obs") is not None]
    counter = [0]

    def fill_val(k):
        return fills[k % len(fills)] / 4.0

    # decide victim per cell of the new slice on the *universe* coordinates so all inputs agree
    def victim_for(cell_key):
        h = (cell_key[0] * 7 + cell_key[1] * 3) % len(victims)
        return victims[h] % n_in

    for i, d in enumerate(sp["inputs"]):
        p = min(pos, len(d[key]))
        d[key] = d[key][:p] + [new] + d[key][p:]
        shape = (len(d["ti"]), len(d["li"]), len(d["si"]))

        def build(old, make):
            out = []
            for a in range(shape[0]):
                pa = []
                for b in range(shape[1]):
                    pb = []
                    for c in range(shape[2]):
                        idx = (a, b, c)
                        if idx[axis_i] == p:
                            others = [d["ti"][a], d["li"][b], d["si"][c]]
                            del others[axis_i]
                            v = victim_for(others)
                            pb.append(make(others, v))
                        else:
                            o = list(idx)
                            if o[axis_i] > p:
                                o[axis_i] -= 1
                            pb.append(old[o[0]][o[1]][o[2]])
                    pa.append(pb)
                out.append(pa)
            return out

        def scalar(name, off):
            if d.get(name) is None:
                return

            def make(others, v):
                if v == i:
                    return None
                if name == "obs":
                    # victims without an obs column: blank the observation in the first obs-bearing input instead
                    if sp["inputs"][v].get("obs") is None and i == obs_inputs[0]:
                        return None
                    return fill_val(others[0] + 2 * others[1])          # same truth for every input
                if name == "pit":
                    return (abs(fills[(others[0] + others[1] + off) % len(fills)]) % 17) / 16.0
                return fill_val(others[0] + others[1] + off + i)
            d[name] = build(d[name], make)

        scalar("obs", 0)
        scalar("fcst", 1)
        scalar("pit", 2)
        for name, nlast, mono in (("cdf", len(d.get("thresholds") or []), "p"), ("qs", len(d.get("quantiles") or []), "x"),
                                  ("ens", d.get("members", 0), None)):
            if d.get(name) is None:
                continue

            def make(others, v, nlast=nlast, mono=mono):
                if v == i:
                    return [None] * nlast
                vals = [fill_val(others[0] + others[1] + j + i) for j in range(nlast)]
                if mono == "p":
                    vals = sorted((abs(int(x * 4)) % 9) / 8.0 for x in vals)
                elif mono == "x":
                    vals = sorted(vals)
                return vals
            d[name] = build(d[name], make)
        if d.get("other"):
            for nm in list(d["other"].keys()):
                def make(others, v):
                    return None if v == i else fill_val(others[0] + others[1] + 3)
                d["other"][nm] = build(d["other"][nm], make)
    return sp


def check_insert(case, ctx):
    import numpy as np
    from .. import mat
    spec = case["spec"]
    dim = case["dim"]
    ds = model.DS(spec)
    if ds.empty:
        ctx.label("empty")
        return
    spec2 = extend(spec, dim, case["victims"], case["fills"], case["pos"])
    ds2 = model.DS(spec2)
    ctx.label("insert=" + dim)
    ctx.label("inputs=%d" % len(spec["inputs"]))
    has_valid = len(ds.cases([("obs",), ("fcst",)], 0)) > 0
    if has_valid:
        ctx.nt((spec["times"], spec["leadtimes"], [d["fcst"] for d in spec["inputs"]], [d["obs"] for d in spec["inputs"]],
                dim, case["victims"], case["fills"]))
        ctx.sample({"insert": dim, "victims": case["victims"], "metrics": case.get("metrics", [case.get("metric")])[:8],
                    "X_dims": [ds.times, ds.leads, ds.ids], "Xplus_dims": [ds2.times, ds2.leads, ds2.ids],
                    "fcst_Xplus": [d["fcst"] for d in spec2["inputs"]]})
    sub = {k: case[k] for k in ("spec", "dim", "victims", "fills", "pos", "agg")}
    new_index = {"location": (ds2.ids.index(777) if 777 in ds2.ids else None),
                 "time": (ds2.times.index(86400 * 20000 + 3600 * 7) if (86400 * 20000 + 3600 * 7) in ds2.times else None),
                 "leadtime": (ds2.leads.index(999.0) if 999.0 in ds2.leads else None)}[dim]
    # whole-array requests for several fields (what fss, droc, change, marginal ... ask for): a case that is missing
    # in ANY of the requested fields is blanked in ALL of them
    import verif.axis
    from .. import gen
    d_all = mat.make_data(spec2)
    for F in gen.common_menu(spec2):
        if len(F) < 2:
            continue
        vF = [mat.vfield(f) for f in F]
        for i in range(len(spec2["inputs"])):
            try:
                arrs = d_all.get_scores(vF, i, verif.axis.All(), None)
            except (Exception, SystemExit):
                continue
            ctx.evals += 1
            masks = [np.isnan(np.asarray(a, float)) for a in arrs]
            if any(m.shape != masks[0].shape or not np.array_equal(m, masks[0]) for m in masks[1:]):
                ctx.fail("C04/whole-array/mask", dict(sub, fields=[list(f) for f in F], input=i),
                         "whole-array request %r for input %d: the fields are not missing at the same cells (a case missing in one field still carries a number in another)" % (F, i))
                break
    for name in ([case["metric"]] if case.get("metric") else case["metrics"]):
        args = mrun.args_for(spec, name)
        if args is None:
            ctx.label("metric-not-applicable")
            continue
        agg = case["agg"] if name in mrun.SUPPORTS_AGG else None
        ctx.label("metric=" + name)
        for axis in POOL_AXES[dim] + [dim]:
            try:
                y1 = mrun.scores(mat.make_data(spec), name, axis, agg=agg, **args)
                y2 = mrun.scores(mat.make_data(spec2), name, axis, agg=agg, **args)
            except (Exception, SystemExit) as e:
                from ..runner import repo_frame_key
                ctx.fail("C04/crash/%s/%s" % (name, repo_frame_key(e) or type(e).__name__), dict(sub, metric=name, axis=axis),
                         "%s: %s" % (type(e).__name__, e))
                break
            ctx.evals += 1
            if axis == dim:
                if new_index is None:
                    continue
                row = y2[new_index, :]
                if agg == "count" and np.all((row == 0) | np.isnan(row)):
                    pass  # the count of valid values of an empty slice is 0
                elif not np.all(np.isnan(row)):
                    ctx.fail("C04/all-missing/" + name, dict(sub, metric=name, axis=axis), "slice without a valid case reports %r" % (row,))
                rest = np.delete(y2, new_index, axis=0)
                if not cmpx.arrays_equal(rest, y1):
                    ctx.fail("C04/insert/" + name, dict(sub, metric=name, axis=axis), "rows of the original slices changed after inserting missing cases: %r -> %r" % (y1.tolist(), rest.tolist()))
            elif not cmpx.arrays_equal(y1, y2):
                ctx.fail("C04/insert/" + name, dict(sub, metric=name, axis=axis),
                         "-x %s: score changed after inserting cases with missing fields: %r -> %r" % (axis, y1.tolist(), y2.tolist()))


# ------------------------------------------------------------------------------------------
def encode_strategy(tier):
    @st.composite
    def s(draw):
        spec = draw(gen.dataset(max_inputs=2, clim=False, flavor=draw(st.sampled_from(["det", "prob", "full"])),
                                core_max=2, extra_max=1, allow_drop=False, max_members=2, allow_obsless=False))
        return {"spec": spec, "metric": draw(st.sampled_from(["mae", "rmse", "corr", "obs", "ets"])),
                "axis": draw(st.sampled_from(["no", "time", "leadtime", "location"]))}
    return s()


TEXT_TOKENS = ["-999", "nan", "NA", "missing", "-999.0", "NaN"]
NC_MISSING = ["fill", "-999", "nan", "big", "fill-9999", "missing_value"]
_counter = [0]


def check_encode(case, ctx):
    case = dict({"metric": "mae", "axis": "no"}, **case)
    import numpy as np
    import verif.input
    from .. import drive, mat
    spec = case["spec"]
    _counter[0] += 1
    base = os.path.join(ctx.scratch, "e%d" % _counter[0])
    os.makedirs(base)
    n_missing = sum(1 for d in spec["inputs"] for pl in d["fcst"] for row in pl for v in row if v is None)
    if n_missing:
        ctx.nt(("encode", spec["times"], [d["fcst"] for d in spec["inputs"]], [d["obs"] for d in spec["inputs"]], case["metric"], case["axis"]))
    outputs = {}
    for kind, encs in (("text", TEXT_TOKENS), ("netcdf", NC_MISSING)):
        for enc in encs:
            dd = os.path.join(base, kind + "_" + enc.replace(".", "_"))
            os.makedirs(dd)
            if kind == "text":
                paths, _ = mat.write_files(spec, dd, "text", missing_token=enc)
            else:
                paths, _ = mat.write_files(spec, dd, "netcdf", missing=enc)
            tag = "%s/%s" % (kind, enc)
            # readers: NaN exactly at the missing cells
            for d, p in zip(spec["inputs"], paths):
                inp = verif.input.get_input(p)
                order_t = [list(inp.times).index(spec["times"][i]) for i in d["ti"]]
                order_l = [list(np.asarray(inp.leadtimes, float)).index(spec["leadtimes"][i]) for i in d["li"]]
                ids = [loc.id for loc in inp.locations]
                order_s = [ids.index(spec["locs"][i]["id"]) for i in d["si"]]
                for name, attr in (("obs", "obs"), ("fcst", "fcst"), ("pit", "pit"), ("cdf", "threshold_scores"), ("qs", "quantile_scores"), ("ens", "ensemble")):
                    if d.get(name) is None:
                        continue
                    exp = mat.arr(d[name])
                    if getattr(inp, attr) is None:
                        ctx.fail("C04/readers/%s/field-absent" % kind, {"spec": spec, "field": name, "encoding": tag},
                                 "%s is absent after reading %s although the file has that column (all of its values may be missing)" % (name, tag))
                        continue
                    got = np.asarray(getattr(inp, attr), float)
                    got = got[order_t][:, order_l][:, :, order_s]
                    if name == "cdf":
                        got = got[..., [list(np.asarray(inp.thresholds, float)).index(t) for t in d["thresholds"]]]
                    if name == "qs":
                        got = got[..., [list(np.round(np.asarray(inp.quantiles, float), 6)).index(round(q, 6)) for q in d["quantiles"]]]
                    ctx.evals += 1
                    if got.shape != exp.shape or not np.array_equal(np.isnan(got), np.isnan(exp)):
                        ctx.fail("C04/readers/%s/%s" % (kind, enc), {"spec": spec, "field": name, "encoding": tag},
                                 "%s read from %s: missing mask differs from the file's content" % (name, tag))
                    elif not np.allclose(np.nan_to_num(got), np.nan_to_num(exp), rtol=1e-6, atol=1e-6):
                        ctx.fail("C04/readers/values/%s" % kind, {"spec": spec, "field": name, "encoding": tag}, "%s values differ" % name)
            args = ["-m", case["metric"], "-x", case["axis"], "-type", "csv"]
            if case["metric"] == "ets":
                args += ["-r", "0.25"]
            r = drive.run(paths + args)
            ctx.evals += 1
            if r.exc is not None:
                ctx.fail("C04/crash/encode/" + r.exc_key, dict(case, encoding=tag), r.tb)
                continue
            h, rows = drive.parse_csv(r.lines())
            n_in = len(spec["inputs"])
            outputs[tag] = [row[:-n_in] + ["%.5g" % float(x) for x in row[-n_in:]] for row in rows]
    tags = sorted(outputs)
    for t in tags[1:]:
        a, b = outputs[tags[0]], outputs[t]
        if a != b:
            # descriptor columns may legitimately differ in float formatting between formats; compare numerically
            same = len(a) == len(b) and all(len(x) == len(y) and all(cmpx.close(float(u), float(v), 1e-5) if _isnum(u) and _isnum(v) else u == v for u, v in zip(x, y)) for x, y in zip(a, b))
            if not same:
                ctx.fail("C04/encode", dict(case, encodings=[tags[0], t]), "scores differ between encodings %s and %s:\n%r\n%r" % (tags[0], t, a[:4], b[:4]))


def _isnum(s):
    try:
        float(s)
        return True
    except ValueError:
        return False


# ------------------------------------------------------------------------------------------
def members_strategy(tier):
    from . import c07
    return c07.ens_strategy(tier)


def check_members(case, ctx):
    """A missing ensemble member is dropped: the event probability derived from the ensemble is the fraction of the
    members that are present (not of all members), and missing when no member is present."""
    from . import c07
    if "bin_type" not in case:
        return check_insert(case, ctx)
    c07.check_ens(case, ctx, key="C04/ensemble-members")


# ------------------------------------------------------------------------------------------
QUOT_AXES = ["no", "time", "leadtime", "location", "month"]


def quotient_strategy(tier):
    @st.composite
    def s(draw):
        spec = draw(gen.dataset(max_inputs=2, clim=True, flavor=draw(st.sampled_from(["det", "det", "prob"])), core_max=3,
                                extra_max=1, allow_drop=False, allow_all_missing=False))
        cf = spec["clim"]["fcst"]
        cells = [(a, b, c) for a in range(len(cf)) for b in range(len(cf[a])) for c in range(len(cf[a][b]))]
        zeros = draw(st.lists(st.sampled_from(cells), min_size=1, max_size=max(1, len(cells) // 3), unique=True))
        for (a, b, c) in zeros:
            cf[a][b][c] = 0.0
        if tier == "thorough":
            metrics = list(mrun.DET + mrun.THR + mrun.PTHR)
        else:
            metrics = draw(st.lists(st.sampled_from(mrun.DET + mrun.THR + mrun.PTHR), min_size=6, max_size=6, unique=True))
        return {"spec": spec, "metrics": metrics, "agg": draw(st.sampled_from(mrun.AGGREGATORS))}
    return s()


def check_quotient(case, ctx):
    """-C with zeros in the climatology: x/0 and 0/0 are non-finite, so those cases are missing; every score equals
    the score of the same data with those cases deleted (here: the climatology value removed at those cells)."""
    import numpy as np
    from .. import mat
    spec = case["spec"]
    opts = {"clim_type": "divide"}
    ds = model.DS(spec, opts)
    if ds.empty:
        ctx.label("empty")
        return
    spec2 = copy.deepcopy(spec)
    spec2["clim"]["fcst"] = [[[None if v == 0 else v for v in row] for row in pl] for pl in spec["clim"]["fcst"]]
    common = set(ds.coords())
    cl = spec["clim"]
    zero_cells = [(spec["times"][cl["ti"][a]], spec["leadtimes"][cl["li"][b]], spec["locs"][cl["si"][c]]["id"])
                  for a in range(len(cl["fcst"])) for b in range(len(cl["fcst"][a])) for c in range(len(cl["fcst"][a][b]))
                  if cl["fcst"][a][b][c] == 0]
    hit = [z for z in zero_cells if z in common]
    neg = False
    for d in spec["inputs"]:
        for name in ("obs", "fcst"):
            if d.get(name) is None:
                continue
            for a, t in enumerate(d["ti"]):
                for b, l in enumerate(d["li"]):
                    for c, sidx in enumerate(d["si"]):
                        v = d[name][a][b][c]
                        if v is not None and v < 0 and (spec["times"][t], spec["leadtimes"][l], spec["locs"][sidx]["id"]) in hit:
                            neg = True
    if hit:
        ctx.label("zero-on-common-case")
        if neg:
            ctx.label("negative-over-zero")
        ctx.nt(("quotient", spec["times"], cl["fcst"], [d["fcst"] for d in spec["inputs"]], [d["obs"] for d in spec["inputs"]]))
        ctx.sample({"clim_fcst": cl["fcst"], "zero_cells_on_common_cases": len(hit), "negative_over_zero": neg,
                    "metrics": case.get("metrics", [case.get("metric")])[:6]})
    sub = {k: case[k] for k in ("spec", "agg")}
    for name in ([case["metric"]] if case.get("metric") else case["metrics"]):
        args = mrun.args_for(spec, name)
        if args is None:
            continue
        agg = case["agg"] if name in mrun.SUPPORTS_AGG else None
        for axis in QUOT_AXES:
            try:
                y1 = mrun.scores(mat.make_data(spec, opts), name, axis, agg=agg, **args)
                y2 = mrun.scores(mat.make_data(spec2, opts), name, axis, agg=agg, **args)
            except (Exception, SystemExit) as e:
                from ..runner import repo_frame_key
                ctx.fail("C04/crash/quotient/%s/%s" % (name, repo_frame_key(e) or type(e).__name__), dict(sub, metric=name),
                         "%s: %s" % (type(e).__name__, e))
                break
            ctx.evals += 1
            if not cmpx.arrays_equal(y1, y2):
                ctx.fail("C04/quotient/" + name, dict(sub, metric=name),
                         "-C, -x %s: score with zeros in the climatology %r differs from the score with those cases deleted %r"
                         % (axis, y1.tolist(), y2.tolist()))
                break


# ------------------------------------------------------------------------------------------
def reader_items(tier):
    items = []
    for v in [-999.0, -999, float("nan"), 1.1e30, 1e36, float("inf"), 9.96921e36]:
        items.append({"fn": "clean", "value": v, "missing": True})
    for v in [0.0, -998.0, -1000.0, 999.0, -999.5, 9e29, 1e29, -1e36, 3.25, -0.0, 1e-30]:
        items.append({"fn": "clean", "value": v, "missing": False})
    for tok in ["-999", "-999.0", "-999.00", "-9.99e2", "nan", "NaN", "NA", "missing", "null", "--", "x1"]:
        items.append({"fn": "text", "token": tok, "missing": True})
    for tok, v in [("0", 0.0), ("-998", -998.0), ("-1000", -1000.0), ("3.25", 3.25), ("1e2", 100.0), ("-0.5", -0.5), ("999", 999.0), ("-999.5", -999.5), ("+7", 7.0)]:
        items.append({"fn": "text", "token": tok, "missing": False, "value": v})
    items.append({"fn": "clean64", "value": 1e30, "missing": False})      # exactly 1e30 is not above 1e30
    items.append({"fn": "clean64", "value": 1.0000001e30, "missing": True})
    items.append({"fn": "clean64", "value": -999.0000001, "missing": False})
    items.append({"fn": "clean-masked"})
    items.append({"fn": "clean-int"})
    return items


def check_reader(case, ctx):
    import numpy as np
    import verif.input
    import verif.util
    ctx.nt(case)
    ctx.sample(case)
    if case["fn"] in ("clean", "clean64"):
        v = float(case["value"])
        for dtype in ((np.float64, np.float32) if case["fn"] == "clean" else (np.float64,)):
            a = np.array([[1.0, v], [v, 2.0]], dtype)
            got = verif.util.clean(a)
            if case["missing"]:
                ok = np.isnan(got[0, 1]) and np.isnan(got[1, 0]) and got[0, 0] == 1 and got[1, 1] == 2
            else:
                ok = got[0, 1] == a[0, 1].astype(float) and got[1, 0] == a[1, 0].astype(float)
            if not ok:
                ctx.fail("C04/readers/clean", case, "util.clean(%r as %s) -> %r" % (v, dtype.__name__, got.tolist()))
    elif case["fn"] == "clean-masked":
        a = np.ma.masked_array(np.array([1.0, 2.0, 3.0]), mask=[False, True, False])
        got = verif.util.clean(a)
        if not (got[0] == 1 and np.isnan(got[1]) and got[2] == 3):
            ctx.fail("C04/readers/clean", case, "masked value read as %r" % got.tolist())
    elif case["fn"] == "clean-int":
        a = np.array([1, -999, 3], np.int32)
        got = verif.util.clean(a)
        if not (got[0] == 1 and np.isnan(got[1]) and got[2] == 3):
            ctx.fail("C04/readers/clean", case, "int -999 read as %r" % got.tolist())
    else:
        got = verif.input.Text._clean(None, case["token"])
        if case["missing"]:
            if not (isinstance(got, float) and math.isnan(got)):
                ctx.fail("C04/readers/text", case, "token %r read as %r" % (case["token"], got))
        elif got != case["value"]:
            ctx.fail("C04/readers/text", case, "token %r read as %r" % (case["token"], got))


# ---- diagrams: a slice whose cases are missing somewhere changes no pooled figure ---------------------------------
# figure kinds (names of the C16 table) whose drawn quantities pool the cases over the inserted dimension
DIAGRAM_POOL = ["reliability", "invreliability", "discrimination", "roc", "droc0", "performance", "marginal", "igncontrib", "economicvalue", "bsdecomp",
                "murphy", "freq", "cond", "hist", "pithist", "qq", "scatter", "against", "error", "taylor", "spreadskill", "fss", "sort", "obsfcst", "change"]
_AXIS_DIM = {"location": "location", "lat": "location", "lon": "location", "elev": "location", "leadtime": "leadtime", "leadtimeday": "leadtime"}


def diagram_insert_strategy(tier):
    from . import c16

    @st.composite
    def s(draw):
        name = draw(st.sampled_from([n for n in DIAGRAM_POOL if n in c16.DIAGRAMS]))
        info = c16.DIAGRAMS[name]
        spec = draw(gen.dataset(max_inputs=min(2, info["max_inputs"]), min_inputs=info["min_inputs"], clim=False,
                                flavor="full" if info["flavor"] == "prob" else "det", core_max=3, extra_max=1, allow_drop=False,
                                allow_obsless=False, max_members=2, allow_all_missing=False, ordered_dims=True))
        opt = info["cls"].options(draw, spec)
        return {"diagram": name, "spec": spec, "opt": opt, "dim": draw(st.sampled_from(["location", "time", "leadtime"])),
                "victims": draw(st.lists(st.integers(0, 3), min_size=4, max_size=4)), "fills": draw(st.lists(st.integers(-40, 40), min_size=6, max_size=6)),
                "bin": draw(st.sampled_from([None, None, "below=", "below", "above=", "above"]))}
    return s()


_dcount = [0]


def _series(dump):
    out = []
    for a in dump["axes"]:
        if a["is_colorbar"]:
            continue
        out.append({"lines": [(ln["label"], ln["x"], ln["y"]) for ln in a["lines"]], "bars": [(b["x"], b["h"]) for b in a["bars"]],
                    "points": [sc["offsets"] for sc in a["scatters"]]})
    return out


def _same_numbers(a, b, tol=1e-5):    # some diagrams (fss) compute in float32: adding a slice changes the order of the sums
    if isinstance(a, (list, tuple)) and isinstance(b, (list, tuple)):
        return len(a) == len(b) and all(_same_numbers(x, y, tol) for x, y in zip(a, b))
    if isinstance(a, str) or isinstance(b, str) or a is None or b is None:
        return a == b
    return cmpx.close(a, b, tol)


def check_diagram_insert(case, ctx):
    """X+ = X plus one more location / time / lead time whose cases are missing in at least one file: every figure that pools the cases
    over that dimension draws exactly what it draws for X (NaN, fill values and absent rows are not events, not zeros, not points)."""
    from .. import drive, figdump, mat
    from . import c16
    if "diagram" not in case:
        return check_insert(case, ctx)
    name, spec, dim = case["diagram"], case["spec"], case["dim"]
    if model.DS(spec).empty:
        return
    info = c16.DIAGRAMS[name]
    dargs = info["cls"].args(dict(case, opt=dict(case["opt"])), spec)
    if dargs is None:
        return
    dargs = list(dargs)
    if "-x" in dargs:
        ax = dargs[dargs.index("-x") + 1]
        if _AXIS_DIM.get(ax, "time" if ax not in ("no", "threshold", "obs", "fcst") else None) == dim:
            ctx.label("diagram-sliced-along-the-inserted-dimension")
            return
    elif name in ("obsfcst", "change", "fss") and dim == "leadtime":
        return          # their default axis is the lead time
    if name == "change" and dim == "time":
        # the change diagram pairs each initialisation time with the next one in the dataset: an added time between two others
        # alters which times are consecutive, which is not "the same data with the missing cases deleted" (CORRECTIONS.md)
        ctx.label("change-diagram-with-an-inserted-time-skipped")
        return
    if case.get("bin") and "-b" in dargs and dargs[dargs.index("-b") + 1] in ("above", "below", "above=", "below="):
        dargs[dargs.index("-b") + 1] = case["bin"]
    elif case.get("bin") and name == "fss" and "-b" not in dargs:
        dargs += ["-b", case["bin"]]
    spec2 = extend(spec, dim, case["victims"], case["fills"], 99)
    _dcount[0] += 1
    dumps = []
    for tag, sp in (("x", spec), ("xplus", spec2)):
        d = os.path.join(ctx.scratch, "di%d_%s" % (_dcount[0], tag))
        os.makedirs(d)
        paths, _ = mat.write_files(sp, d, "text")
        r = drive.run(paths + dargs)
        if r.exc is not None:
            ctx.fail("C04/diagram-insert/%s/crash/%s" % (name, r.exc_key), case, "argv %s on %s: %s" % (" ".join(dargs), tag, r.tb[-500:]))
            return
        if r.exit not in (None, 0):
            ctx.label("diagram-insert/error-exit")
            return
        dumps.append(_series(figdump.dump_current()))
    if _dcount[0] % 20 == 0:
        drive.close_figures()
    ctx.evals += 1
    ctx.label("diagram-insert=" + name)
    ctx.nt(("diagram-insert", name, dargs, dim, spec["times"], [d_["fcst"] for d_ in spec["inputs"]], case["victims"]))
    a, b = dumps
    if len(a) != len(b):
        ctx.fail("C04/diagram-insert/%s" % name, case, "argv %s: %d axes for X, %d for X+" % (" ".join(dargs), len(a), len(b)))
        return
    for k, (pa, pb) in enumerate(zip(a, b)):
        for part in ("lines", "bars", "points"):
            if not _same_numbers(pa[part], pb[part]):
                diff = [(x, y) for x, y in zip(pa[part], pb[part]) if not _same_numbers(x, y)][:2]
                ctx.fail("C04/diagram-insert/%s" % name, case, "argv %s: after adding a %s whose cases are missing in some file the %s of axes %d change: %r"
                         % (" ".join(dargs), dim, part, k, diff or (len(pa[part]), len(pb[part]))))
                return


def campaigns(tier):
    return [
        Enum("readers", reader_items, check_reader, "listed encodings and neighbouring ordinary values"),
        Hyp("insert", insert_strategy, check_insert, quick=480, thorough=4000, budget_quick=60, budget_thorough=1500),
        Hyp("encode", encode_strategy, check_encode, quick=160, thorough=4000, budget_quick=60, budget_thorough=1200),
        Hyp("ensemble-members", members_strategy, check_members, quick=480, thorough=8000, budget_quick=30, budget_thorough=600),
        Hyp("quotient", quotient_strategy, check_quotient, quick=240, thorough=3000, budget_quick=60, budget_thorough=1200),
        Hyp("diagram-insert", diagram_insert_strategy, check_diagram_insert, quick=400, thorough=8000, budget_quick=40, budget_thorough=1500),
    ]
