"""C05 - Deterministic scores equal their published definitions."""
import math

from hypothesis import strategies as st

from .. import cmpx, gen, model, mrun
from ..runner import Hyp

ID = "C05"
TITLE = "Deterministic scores equal their published definitions"
RULE = ("(vectors) obs/fcst vectors of length 0-40 (thorough 0-300) on a dyadic grid with forced classes (empty, single "
        "pair, all equal, constant obs, constant fcst, ties, negatives, zeros, strictly positive, NaN in one or both, "
        "identical forecast) through Metric.compute_from_obs_fcst for 22 deterministic metrics x 17 aggregators where "
        "supported, against textbook formulas in exact rational arithmetic (Fraction) / from-scratch rank statistics; "
        "undefined references must give NaN/non-finite without exception; identical forecasts must attain the declared "
        "perfect score; no vector may beat it. (datasets) the same references applied to the model's valid pairs of "
        "every slice through the -type csv code path incl. obs, fcst, within and the conditional axes -x obs/-x fcst. "
        "Non-trivial: n>=2 with non-constant obs and fcst; distinct by hash of (vectors).")
ASSUMPTIONS = [
    "values are multiples of 1/4 with |v|<=10 so sums are exact; comparison tolerance 1e-9 relative",
    "rank correlations are compared with from-scratch average-rank Pearson and O(n^2) tau-b",
    "ef, obsstddev, fcststddev, obs, fcst are checked by definition only (no perfect-score clause)",
    "with -agg count an otherwise undefined score may be a finite count",
]

VECTOR_METRICS = ["mae", "bias", "rmse", "stderror", "corr", "rankcorr", "kendallcorr", "nsec", "nnsec", "kge", "cmae", "rmsf",
                  "dmb", "mbias", "ef", "derror", "leps", "alphaindex", "diff", "ratio", "obsstddev", "fcststddev"]
PERFECT = ["mae", "rmse", "cmae", "stderror", "nsec", "nnsec", "kge", "alphaindex", "leps", "corr", "rankcorr", "kendallcorr",
           "derror", "bias", "diff", "ratio", "rmsf", "dmb", "mbias"]
ALWAYS_DEFINED = ["mae", "bias", "rmse", "stderror", "cmae", "diff"]
AGGS = mrun.AGGREGATORS + ["0", "0.25", "0.5", "0.9", "1", "0.975", "0.025", "0.125", "0.333"]


def vector_strategy(tier):
    maxlen = 40 if tier == "quick" else 300
    v = st.integers(-40, 40).map(lambda i: i / 4.0)
    pos = st.integers(1, 40).map(lambda i: i / 4.0)

    @st.composite
    def s(draw):
        cls = draw(st.sampled_from(["generic"] * 6 + ["empty", "single", "allequal", "obsconst", "fcstconst", "ties", "positive",
                                                   "positive", "identical", "identical", "withnan", "withnan", "zeros"]))
        n = draw(st.integers(2, maxlen))
        if cls == "empty":
            o, f = [], []
        elif cls == "single":
            o, f = [draw(v)], [draw(v)]
        elif cls == "allequal":
            c = draw(v)
            o, f = [c] * n, [c] * n
        elif cls == "obsconst":
            c = draw(v)
            o, f = [c] * n, draw(st.lists(v, min_size=n, max_size=n))
        elif cls == "fcstconst":
            c = draw(v)
            o, f = draw(st.lists(v, min_size=n, max_size=n)), [c] * n
        elif cls == "ties":
            small = st.integers(-2, 2).map(float)
            o, f = draw(st.lists(small, min_size=n, max_size=n)), draw(st.lists(small, min_size=n, max_size=n))
        elif cls == "positive":
            o, f = draw(st.lists(pos, min_size=n, max_size=n)), draw(st.lists(pos, min_size=n, max_size=n))
        elif cls == "identical":
            o = draw(st.lists(draw(st.sampled_from([v, pos])), min_size=n, max_size=n))
            f = list(o)
        elif cls == "zeros":
            z = st.sampled_from([0.0, 0.0, 1.0, -1.0, 0.25])
            o, f = draw(st.lists(z, min_size=n, max_size=n)), draw(st.lists(z, min_size=n, max_size=n))
        else:
            o, f = draw(st.lists(v, min_size=n, max_size=n)), draw(st.lists(v, min_size=n, max_size=n))
        if cls == "withnan":
            mo = draw(st.lists(st.sampled_from([False] * 4 + [True]), min_size=n, max_size=n))
            mf = draw(st.lists(st.sampled_from([False] * 4 + [True]), min_size=n, max_size=n))
            o = [None if m else x for x, m in zip(o, mo)]
            f = [None if m else x for x, m in zip(f, mf)]
        return {"cls": cls, "obs": o, "fcst": f, "agg": draw(st.sampled_from(AGGS))}
    return s()


def decimal_strategy(tier):
    """Values with one decimal place (not exactly representable in binary, let alone float32): the definitions
    must still hold to 1e-9; degenerate (undefined or nearly undefined) references are not judged here."""
    maxlen = 30 if tier == "quick" else 200
    v = st.integers(-150, 150).map(lambda i: i / 10.0)

    @st.composite
    def s(draw):
        n = draw(st.integers(2, maxlen))
        iv = st.integers(-150, 150)
        cls = draw(st.sampled_from(["decimal", "decimal", "decimal-shifted", "decimal-scaled"]))
        if cls == "decimal-shifted":
            # a pure bias: fcst = obs + c; the spread of the errors is zero up to rounding
            io = draw(st.lists(iv, min_size=n, max_size=n))
            c = draw(st.integers(-150, 150))
            o, f = [i / 10.0 for i in io], [(i + c) / 10.0 for i in io]
        elif cls == "decimal-scaled":
            io = draw(st.lists(iv, min_size=n, max_size=n))
            k = draw(st.sampled_from([2, 3, 5, 7]))
            o, f = [i / 10.0 for i in io], [i * k / 10.0 for i in io]
        else:
            o = draw(st.lists(v, min_size=n, max_size=n))
            f = draw(st.lists(v, min_size=n, max_size=n))
        return {"cls": cls, "obs": o, "fcst": f, "agg": draw(st.sampled_from(AGGS)), "decimal": True}
    return s()


def _nonfinite(x):
    try:
        x = float(x)
    except Exception:
        return False
    return math.isnan(x) or math.isinf(x)


def _well_conditioned(name, pairs):
    o = [p[0] for p in pairs]
    f = [p[1] for p in pairs]
    n = len(pairs)
    mo = sum(o) / n
    mf = sum(f) / n
    vo = sum((x - mo) ** 2 for x in o) / n
    vf = sum((x - mf) ** 2 for x in f) / n
    if name in ("corr", "rankcorr", "kendallcorr", "kge", "nsec", "nnsec", "alphaindex"):
        if vo < 1e-3 or vf < 1e-3:
            return False
    if name in ("kge", "mbias", "ratio") and abs(mo) < 1e-3:
        return False
    if name == "dmb" and abs(mf) < 1e-3:
        return False
    if name == "rmsf":
        return all(a > 0 and b > 0 for a, b in pairs)
    if name in ("ef", "leps", "rankcorr", "kendallcorr", "derror"):
        return True
    return True


def check_vector(case, ctx):
    import numpy as np
    import verif.aggregator
    import verif.metric
    from ..runner import repo_frame_key
    o = np.array([np.nan if x is None else x for x in case["obs"]], float)
    f = np.array([np.nan if x is None else x for x in case["fcst"]], float)
    pairs = [(a, b) for a, b in zip(case["obs"], case["fcst"]) if a is not None and b is not None]
    ctx.label("class=" + case.get("cls", "replay"))
    n = len(pairs)
    generic = n >= 2 and len(set(p[0] for p in pairs)) > 1 and len(set(p[1] for p in pairs)) > 1
    if generic:
        ctx.nt((case["obs"], case["fcst"]))
        ctx.label("nontrivial")
        if n <= 8:
            ctx.sample({"obs": case["obs"], "fcst": case["fcst"], "agg": case.get("agg", "mean")})
    identical = n > 0 and all(a == b for a, b in pairs)
    for name in ([case["metric"]] if case.get("metric") in VECTOR_METRICS else VECTOR_METRICS):
        m = verif.metric.get(name)
        aggs = ["mean"]
        if m.supports_aggregator and case.get("agg", "mean") != "mean":
            aggs.append(case["agg"])
        for agg in aggs:
            m = verif.metric.get(name)
            if agg != "mean":
                m.aggregator = verif.aggregator.get(agg)
            sub = {"metric": name, "agg": agg, "obs": case["obs"], "fcst": case["fcst"]}
            ctx.evals += 1
            try:
                got = m.compute_from_obs_fcst(o.copy(), f.copy())
                got = float(got)
            except (Exception, SystemExit) as e:
                ctx.fail("C05/undefined/%s/exception" % name, sub, "%s: %s (%s)" % (type(e).__name__, e, repo_frame_key(e)))
                continue
            ref = model.det_metric(name, pairs, agg)
            if ref is not None and isinstance(ref, float) and math.isnan(ref):
                ref = None
            key_agg = "" if agg == "mean" else "/" + ("quantile" if agg[0].isdigit() else agg)
            if case.get("decimal"):
                # non-dyadic values: only well-conditioned references are judged
                if ref is None or not _well_conditioned(name, pairs):
                    continue
                if case.get("cls") == "decimal-shifted" and agg != "mean":
                    continue   # a spread statistic of pure rounding noise is ill-conditioned: not judged
                if _nonfinite(got):
                    # metrics whose definition is a finite number for any non-empty set of pairs
                    if name in ALWAYS_DEFINED and agg == "mean" and not _nonfinite(ref):
                        ctx.fail("C05/def/%s" % name, sub, "%s = %r on %d pairs, definition gives %r (decimal values)" % (name, got, n, ref))
                    continue
                if not cmpx.close(got, ref, 1e-8):
                    ctx.fail("C05/def/%s%s" % (name, key_agg), sub, "%s(agg=%s) = %r, definition gives %r (decimal values)" % (name, agg, got, ref))
                continue
            if ref is None:
                # with another aggregator than the mean, terms that are undefined may legitimately be skipped
                if not _nonfinite(got) and agg == "mean":
                    ctx.fail("C05/undefined/%s" % name, sub, "definition undefined on these pairs but %s returned %r" % (name, got))
            elif not cmpx.close(got, ref, 1e-9):
                ctx.fail("C05/def/%s%s" % (name, key_agg), sub, "%s(agg=%s) = %r, definition gives %r" % (name, agg, got, ref))
            if agg == "mean":
                cls_m = type(m)
                if identical and name in PERFECT and ref is not None and cls_m.perfect_score is not None:
                    if not cmpx.close(got, float(cls_m.perfect_score), 1e-9):
                        ctx.fail("C05/perfect/%s" % name, sub, "forecast identical to the observations scores %r, documented perfect score %r" % (got, cls_m.perfect_score))
                if cls_m.orientation != 0 and cls_m.perfect_score is not None and name not in ("obsstddev", "fcststddev") and not _nonfinite(got):
                    p = float(cls_m.perfect_score)
                    if (cls_m.orientation < 0 and got < p - 1e-9) or (cls_m.orientation > 0 and got > p + 1e-9):
                        ctx.fail("C05/bound/%s" % name, sub, "%s = %r is better than the documented perfect score %r" % (name, got, p))
    # within: percentage of |errors| inside the event
    import verif.util
    for b, T in (("below", [1.0]), ("below=", [1.0]), ("within", [0.5, 2.0]), ("=within=", [0.0, 1.0]), ("above", [2.0])):
        iv = verif.util.get_intervals(b, np.array(T))[0]
        try:
            got = float(verif.metric.Within().compute_from_obs_fcst(o.copy(), f.copy(), iv))
        except (Exception, SystemExit) as e:
            ctx.fail("C05/undefined/within/exception", {"obs": case["obs"], "fcst": case["fcst"], "bin": b}, "%s: %s" % (type(e).__name__, e))
            continue
        ctx.evals += 1
        t0, t1 = T[0], (T[1] if len(T) > 1 else None)
        if n == 0:
            if not _nonfinite(got):
                ctx.fail("C05/undefined/within", {"obs": case["obs"], "fcst": case["fcst"], "bin": b}, "no pairs but within = %r" % got)
        else:
            ref = 100.0 * sum(1 for a, c in pairs if model.in_event(b, abs(a - c), t0, t1)) / n
            if not cmpx.close(got, ref):
                ctx.fail("C05/def/within", {"obs": case["obs"], "fcst": case["fcst"], "bin": b, "thresholds": T}, "within = %r, definition %r" % (got, ref))


# ---- dataset route -----------------------------------------------------------------------
def ds_strategy(tier):
    @st.composite
    def s(draw):
        spec = draw(gen.dataset(max_inputs=2, clim="maybe", flavor="det", core_max=4, extra_max=1, allow_drop=False,
                                allow_all_missing=False))
        return {"spec": spec, "metrics": draw(st.lists(st.sampled_from(VECTOR_METRICS + ["obs", "fcst"]), min_size=5, max_size=5, unique=True)),
                "axis": draw(st.sampled_from(gen.AXES_FOR_SCORES + ["obs", "fcst"])),
                "agg": draw(st.sampled_from(AGGS)),
                "edges": sorted(draw(st.lists(st.integers(-40, 40).map(lambda i: i / 4.0), min_size=2, max_size=3, unique=True))),
                "bin": draw(st.sampled_from(["within", "within=", "=within", "=within=", "above", "below="])),
                # -r / -b given although the axis is a data dimension: a deterministic score does not depend on them; 'within' is
                # scored for that one event
                "with_r": draw(st.sampled_from([False, True])),
                # the valid pairs of the slice: also under -obsrange (on the observed value itself) and -c / -C
                "obs_range": draw(st.sampled_from([None, None, "draw"])) and sorted([draw(st.integers(-20, 20)) / 2.0, draw(st.integers(-20, 20)) / 2.0]),
                "clim_type": draw(st.sampled_from(["subtract", "subtract", "divide"]))}
    return s()


def check_dataset(case, ctx):
    import numpy as np
    from .. import mat
    spec = case["spec"]
    opts = {}
    if case.get("obs_range"):
        opts["obs_range"] = case["obs_range"]
        ctx.label("-obsrange" + ("+clim" if spec.get("clim") else ""))
    if spec.get("clim") and case.get("clim_type"):
        opts["clim_type"] = case["clim_type"]
    ds = model.DS(spec, opts)
    if ds.empty:
        return
    axis = case["axis"]
    n_in = len(spec["inputs"])
    ctx.label("axis=" + axis)
    with_r = bool(case.get("with_r")) and axis not in ("obs", "fcst")
    one_event = (case["edges"][:2] if case["bin"] in model.WITHIN_TYPES else case["edges"][:1])
    names = [case["metric"]] if case.get("metric") else (list(case["metrics"]) + (["within"] if with_r else []))
    if with_r:
        ctx.label("-r/-b with a data axis")
    for name in names:
        supports = name in mrun.SUPPORTS_AGG
        agg = case["agg"] if supports else "mean"
        data = mat.make_data(spec, opts)
        kw = {}
        if axis in ("obs", "fcst"):
            kw = {"thresholds": case["edges"], "bin_type": case["bin"]}
        elif with_r:
            kw = {"thresholds": one_event if name == "within" else case["edges"], "bin_type": case["bin"]}
        elif name == "within":
            continue
        try:
            y = mrun.scores(data, name, axis, agg=(agg if agg != "mean" else None), **kw)
        except (Exception, SystemExit) as e:
            from ..runner import repo_frame_key
            ctx.fail("C05/undefined/%s/exception-ds" % name, dict(case, metric=name), "%s: %s (%s)" % (type(e).__name__, e, repo_frame_key(e)))
            continue
        evs = model.events(case["bin"], case["edges"]) if axis in ("obs", "fcst") else None
        nrows = len(evs) if evs is not None else ds.n_slices(axis)
        if y.shape != (nrows, n_in):
            ctx.fail("C05/def/shape", dict(case, metric=name), "score table has shape %r, expected %r" % (y.shape, (nrows, n_in)))
            continue
        for k in range(nrows):
            for i in range(n_in):
                ctx.evals += 1
                if name in ("obs", "fcst"):
                    fld = [(name,)]
                    if evs is not None and axis != name:
                        fld = [(name,), (axis,)]
                    cs = ds.cases(fld, i, "no" if evs is not None else axis, 0 if evs is not None else k)
                    if evs is not None:
                        pos = len(fld) - 1
                        cs = [c for c in cs if model.in_event(case["bin"], c[pos], evs[k][0], evs[k][1])]
                    vals = [c[0] for c in cs]
                    ref = model.aggregate(agg, vals) if (vals or agg == "count") else None
                else:
                    cs = ds.cases([("obs",), ("fcst",)], i, "no" if evs is not None else axis, 0 if evs is not None else k)
                    if evs is not None:
                        pos = 0 if axis == "obs" else 1
                        cs = [c for c in cs if model.in_event(case["bin"], c[pos], evs[k][0], evs[k][1])]
                    if name == "within":
                        ev = model.events(case["bin"], one_event)[0]
                        ref = (100.0 * sum(1 for a_, c_ in cs if model.in_event(case["bin"], abs(a_ - c_), ev[0], ev[1])) / len(cs)) if cs else None
                    else:
                        ref = model.det_metric(name, cs, agg)
                if ref is not None and math.isnan(ref):
                    ref = None
                if len(cs) == 0 and agg == "count":
                    ref = None   # count of an empty selection: 0 or NaN
                got = float(y[k, i])
                if len(cs) >= 2:
                    ctx.nt((name, agg, axis, k, i, cs[:6]))
                sub = dict(case, metric=name, row=k, input=i)
                if ref is None:
                    if not _nonfinite(got) and (agg == "mean" or (len(cs) == 0 and not (agg in ("sum", "count") and got == 0))):
                        ctx.fail("C05/undefined/%s" % name, sub, "undefined on the %d valid pairs of this slice but reported %r" % (len(cs), got))
                elif not cmpx.close(got, ref, 1e-9):
                    if name in ("leps", "alphaindex"):
                        ctx.fail("C05/def/%s" % name, sub, "%s = %r, definition %r" % (name, got, ref))
                    else:
                        ctx.fail("C05/def-ds/%s" % name, sub, "-m %s -x %s (agg %s) row %d input %d: %r, definition on the valid pairs gives %r" % (name, axis, agg, k, i, got, ref))


def campaigns(tier):
    return [
        Hyp("vectors", vector_strategy, check_vector, quick=4800, thorough=100000, budget_quick=50, budget_thorough=1500),
        Hyp("vectors-decimal", decimal_strategy, check_vector, quick=1600, thorough=40000, budget_quick=40, budget_thorough=900),
        Hyp("datasets", ds_strategy, check_dataset, quick=1200, thorough=30000, budget_quick=50, budget_thorough=1200),
    ]
