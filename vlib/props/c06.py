"""C06 - Categorical scores equal their 2x2 contingency-table definitions."""
import math
import os

from hypothesis import strategies as st

from .. import cmpx, gen, model
from ..runner import Enum, Hyp

ID = "C06"
TITLE = "Categorical scores equal their 2x2 contingency-table definitions"
RULE = ("(tables) every table (a,b,c,d) with 1<=a+b+c+d<=N (N=12 quick, 22 thorough; exhaustive) plus random tables up to "
        "1e6 per cell x 25 categorical metrics: compute_from_abcd and compute_from_obs_fcst (vectors realising the table) "
        "against exact Fraction/log formulas; NaN exactly where undefined, never +-inf, never an exception; (vectors) "
        "obs/fcst vectors with NaNs x 8 bin types x thresholds below/at/between/above the data: the counts recovered through "
        "the metrics a,b,c,d,n equal the model's counts with the documented event semantics and add up to the number of "
        "valid pairs; swapping obs and fcst exchanges b and c; complementing the event exchanges a and d; a perfect "
        "forecast attains the perfect score or NaN; (csv) `-m <metric> -r .. -b .. -type csv` on generated files. "
        "Non-trivial: all four counts non-zero; degenerate tables are counted as their own class; distinct by hash.")
ASSUMPTIONS = [
    "total 0 is not a table (an empty slice is covered by the vector route: NaN)",
    "logarithmic scores are compared with tolerance 1e-9, rational ones exactly up to float rounding (1e-12)",
]


def table_items(tier):
    N = 12 if tier == "quick" else 22
    items = []
    for tot in range(1, N + 1):
        for a in range(tot + 1):
            for b in range(tot - a + 1):
                for c in range(tot - a - b + 1):
                    items.append([a, b, c, tot - a - b - c])
    # blocks of 64 tables per item keep per-item overhead low
    return [{"tables": items[i:i + 64]} for i in range(0, len(items), 64)]


def _metric(name):
    import verif.metric
    return verif.metric.get(name)


def check_tables(case, ctx):
    import numpy as np
    import verif.interval
    iv = verif.interval.Interval(0.5, np.inf, False, False)
    for (a, b, c, d) in case["tables"]:
        generic = a > 0 and b > 0 and c > 0 and d > 0
        if generic:
            ctx.nt((a, b, c, d))
            ctx.label("generic")
            if a + b + c + d <= 6:
                ctx.sample({"a": a, "b": b, "c": c, "d": d})
        else:
            ctx.nt(("deg", a, b, c, d))
            ctx.label("degenerate")
        obs = np.array([1.0] * a + [0.0] * b + [1.0] * c + [0.0] * d)
        fcst = np.array([1.0] * a + [1.0] * b + [0.0] * c + [0.0] * d)
        big = a + b + c + d > 4000
        for name in model.CONT_METRICS:
            ref = model.cont_metric(name, a, b, c, d)
            m = _metric(name)
            sub = {"tables": [[a, b, c, d]], "metric": name}
            ctx.evals += 1
            routes = [("abcd", lambda: m.compute_from_abcd(a, b, c, d))]
            if not big:
                routes.append(("vectors", lambda: m.compute_from_obs_fcst(obs, fcst, iv)))
            for route, fn in routes:
                try:
                    got = float(fn())
                except (Exception, SystemExit) as e:
                    ctx.fail("C06/formula/%s/exception" % name, sub, "%s via %s: %s: %s" % (name, route, type(e).__name__, e))
                    continue
                if ref is None:
                    if not math.isnan(got):
                        ctx.fail("C06/undefined/%s" % name, sub, "%s(%d,%d,%d,%d) via %s = %r where the formula is undefined" % (name, a, b, c, d, route, got))
                elif math.isinf(got):
                    ctx.fail("C06/undefined/%s" % name, sub, "%s returned infinity" % name)
                elif not cmpx.close(got, ref, 1e-9):
                    ctx.fail("C06/formula/%s" % name, sub, "%s(%d,%d,%d,%d) via %s = %r, formula gives %r" % (name, a, b, c, d, route, got, ref))


def random_tables(tier):
    cell = st.one_of(st.integers(0, 30), st.integers(0, 10 ** 6), st.just(0))
    return st.lists(st.tuples(cell, cell, cell, cell).filter(lambda t: sum(t) > 0).map(list), min_size=1, max_size=4).map(lambda ts: {"tables": ts})


# ---- vectors -----------------------------------------------------------------------------
def vector_strategy(tier):
    vd = st.integers(-8, 8).map(lambda i: i / 2.0)
    vdec = st.integers(-20, 20).map(lambda i: i / 10.0)     # decimal values: not representable in float32

    @st.composite
    def s(draw):
        v = draw(st.sampled_from([vd, vd, vdec]))
        n = draw(st.integers(0, 24 if tier == "quick" else 120))
        o = draw(st.lists(st.one_of(v, v, v, st.none()), min_size=n, max_size=n))
        f = draw(st.lists(st.one_of(v, v, v, st.none()), min_size=n, max_size=n))
        if draw(st.sampled_from([False, False, False, True])):
            f = list(o)
        b = draw(st.sampled_from(model.BIN_TYPES))
        data_vals = sorted(set(x for x in o + f if x is not None)) or [0.0]
        cand = sorted(set(data_vals + [data_vals[0] - 1, data_vals[-1] + 1] + [x + 0.25 for x in data_vals]))
        k = 2 if b in model.WITHIN_TYPES else 1
        T = sorted(draw(st.lists(st.sampled_from(cand), min_size=k, max_size=k)))
        if n and draw(st.sampled_from([False, False, True])):
            # some values miss a threshold by a hair (5e-6 relative and less): events are exact comparisons
            for t in T:
                for eps in (1e-9, -1e-9, 4e-6, -4e-6):
                    j = draw(st.integers(0, 2 * n - 1))
                    tgt = o if j < n else f
                    if tgt[j % n] is not None:
                        tgt[j % n] = t + eps * max(1.0, abs(t))
        return {"obs": o, "fcst": f, "bin_type": b, "thresholds": T}
    return s()


COMPLEMENT = {"above": "below=", "below=": "above", "above=": "below", "below": "above="}


def counts_via_metrics(o, f, iv):
    out = []
    n = float(_metric("n").compute_from_obs_fcst(o, f, iv))
    for name in ("a", "b", "c", "d"):
        frac = float(_metric(name).compute_from_obs_fcst(o, f, iv))
        out.append(frac * n)
    return out, n


def check_vectors(case, ctx):
    import numpy as np
    import verif.util
    o = np.array([np.nan if x is None else x for x in case["obs"]], float)
    f = np.array([np.nan if x is None else x for x in case["fcst"]], float)
    b, T = case["bin_type"], case["thresholds"]
    t0, t1 = T[0], (T[1] if len(T) > 1 else None)
    pairs = [(x, y) for x, y in zip(case["obs"], case["fcst"]) if x is not None and y is not None]
    eo = [model.in_event(b, x, t0, t1) for x, _ in pairs]
    ef = [model.in_event(b, y, t0, t1) for _, y in pairs]
    exp = [sum(1 for p, q in zip(eo, ef) if q and p), sum(1 for p, q in zip(eo, ef) if q and not p),
           sum(1 for p, q in zip(eo, ef) if (not q) and p), sum(1 for p, q in zip(eo, ef) if (not q) and (not p))]
    iv = verif.util.get_intervals(b, np.array(T))[0]
    ctx.label("bin=" + b)
    if all(e > 0 for e in exp):
        ctx.nt((case["obs"], case["fcst"], b, T))
        ctx.label("generic")
        if len(pairs) <= 8:
            ctx.sample(case)
    at_threshold = any(x in T for p in pairs for x in p)
    if at_threshold:
        ctx.label("value_at_threshold")
    sub = dict(case)
    if len(pairs) == 0:
        for name in model.CONT_METRICS:
            try:
                got = float(_metric(name).compute_from_obs_fcst(o, f, iv))
            except (Exception, SystemExit) as e:
                ctx.fail("C06/formula/%s/exception" % name, dict(sub, metric=name), "no valid pair: %s: %s" % (type(e).__name__, e))
                continue
            ctx.evals += 1
            if not math.isnan(got):
                ctx.fail("C06/undefined/%s" % name, dict(sub, metric=name), "no valid pair but %s = %r" % (name, got))
        return
    try:
        got, n = counts_via_metrics(o, f, iv)
    except (Exception, SystemExit) as e:
        ctx.fail("C06/count/exception", sub, "%s: %s" % (type(e).__name__, e))
        return
    ctx.evals += 1
    if n != len(pairs) or not all(cmpx.close(g, e, 1e-9) for g, e in zip(got, exp)):
        ctx.fail("C06/count", sub, "a,b,c,d,n = %r,%r; model %r over %d valid pairs" % ([round(g, 6) for g in got], n, exp, len(pairs)))
        return
    # every metric from the vectors equals the formula of the model's counts
    for name in model.CONT_METRICS:
        ref = model.cont_metric(name, *exp)
        try:
            g = float(_metric(name).compute_from_obs_fcst(o, f, iv))
        except (Exception, SystemExit) as e:
            ctx.fail("C06/formula/%s/exception" % name, dict(sub, metric=name), "%s: %s" % (type(e).__name__, e))
            continue
        ctx.evals += 1
        if ref is None:
            if not math.isnan(g):
                ctx.fail("C06/undefined/%s" % name, dict(sub, metric=name), "%s = %r on table %r where the formula is undefined" % (name, g, exp))
        elif not cmpx.close(g, ref, 1e-9):
            ctx.fail("C06/formula/%s" % name, dict(sub, metric=name), "%s = %r on table %r, formula %r" % (name, g, exp, ref))
        # perfect forecast
        cls = type(_metric(name))
        if all(x == y for x, y in pairs) and cls.perfect_score is not None and not math.isnan(g):
            if not cmpx.close(g, float(cls.perfect_score)):
                ctx.fail("C06/perfect/%s" % name, dict(sub, metric=name), "perfect forecast scores %r, documented perfect score %r" % (g, cls.perfect_score))
    # swap
    gs, ns = counts_via_metrics(f, o, iv)
    if not all(cmpx.close(x, y) for x, y in zip(gs, [got[0], got[2], got[1], got[3]])):
        ctx.fail("C06/swap", sub, "swapping obs and fcst: %r -> %r" % (got, gs))
    # complement
    if b in COMPLEMENT:
        ivc = verif.util.get_intervals(COMPLEMENT[b], np.array(T))[0]
        gc, nc = counts_via_metrics(o, f, ivc)
        if not all(cmpx.close(x, y) for x, y in zip(gc, [got[3], got[2], got[1], got[0]])):
            ctx.fail("C06/complement", sub, "complement event %s: %r -> %r (expected a<->d, b<->c)" % (COMPLEMENT[b], got, gc))


# ---- csv -----------------------------------------------------------------------------------
def csv_strategy(tier):
    @st.composite
    def s(draw):
        spec = draw(gen.dataset(max_inputs=2, clim=False, flavor="det", core_max=4, extra_max=1, allow_drop=False, allow_all_missing=False))
        b = draw(st.sampled_from(model.BIN_TYPES))
        vals = sorted(set(v for d in spec["inputs"] for pl in d["fcst"] for row in pl for v in row if v is not None)) or [0.0]
        cand = sorted(set(vals + [vals[0] - 1, vals[-1] + 1] + [x + 0.125 for x in vals]))
        k = draw(st.integers(2, 3)) if b in model.WITHIN_TYPES else draw(st.integers(1, 3))
        T = sorted(draw(st.lists(st.sampled_from(cand), min_size=k, max_size=k, unique=True)))
        if b not in model.WITHIN_TYPES and draw(st.booleans()):
            T = list(draw(st.permutations(T)))       # one-sided events given in any order: each row is the event of its own threshold
        return {"spec": spec, "metric": draw(st.sampled_from(model.CONT_METRICS)), "bin_type": b, "thresholds": T,
                "kind": draw(st.sampled_from(["text", "netcdf"])),
                "axis": draw(st.sampled_from(["threshold", "threshold", "no", "leadtime", "location", "time", "month"]))}
    return s()


_counter = [0]


def check_csv(case, ctx):
    from .. import drive, mat
    spec = case["spec"]
    ds = model.DS(spec)
    if ds.empty:
        return
    _counter[0] += 1
    # every second case rewrites the files of the case before it (same paths, new content), as a user re-running after
    # regenerating a file does within one session: the table must be counted from the pairs now in the file
    d = os.path.join(ctx.scratch, "t%d" % (_counter[0] // 2))
    if os.path.isdir(d):
        ctx.label("csv/files-rewritten-in-place")
        import shutil
        shutil.rmtree(d)
    os.makedirs(d)
    paths, _ = mat.write_files(spec, d, case["kind"])
    T = case["thresholds"]
    axis = case.get("axis", "threshold")
    if axis != "threshold":
        # one event on a data dimension: one row per slice, each the formula of that slice's table
        T = T[:2] if case["bin_type"] in model.WITHIN_TYPES else T[:1]
    r = drive.run(paths + ["-m", case["metric"], "-x", axis, "-type", "csv", "-b", case["bin_type"], "-r", ",".join(repr(float(t)) for t in T)])
    ctx.evals += 1
    ctx.label("csv/" + case["metric"])
    ctx.label("csv-axis/" + axis)
    if r.exc is not None:
        ctx.fail("C06/csv/exc/" + r.exc_key, case, r.tb)
        return
    if r.exit not in (None, 0):
        ctx.fail("C06/csv/exit", case, " | ".join(r.error_lines()))
        return
    h, rows = drive.parse_csv(r.lines())
    evs = model.events(case["bin_type"], T)
    n_in = len(spec["inputs"])
    if axis == "threshold":
        cells = [(k, ev, "no", 0) for k, ev in enumerate(evs)]
    else:
        cells = [(k, evs[0], axis, k) for k in range(ds.n_slices(axis))]
    if len(rows) != len(cells):
        ctx.fail("C06/csv/rows", case, "%d rows for %d %s" % (len(rows), len(cells), "events" if axis == "threshold" else "slices"))
        return
    for k, (t0, t1), ax, sl in cells:
        for i in range(n_in):
            cs = ds.cases([("obs",), ("fcst",)], i, ax, sl)
            eo = [model.in_event(case["bin_type"], o, t0, t1) for o, _ in cs]
            ef = [model.in_event(case["bin_type"], f, t0, t1) for _, f in cs]
            tab = [sum(1 for p, q in zip(eo, ef) if q and p), sum(1 for p, q in zip(eo, ef) if q and not p),
                   sum(1 for p, q in zip(eo, ef) if (not q) and p), sum(1 for p, q in zip(eo, ef) if (not q) and (not p))]
            ref = model.cont_metric(case["metric"], *tab) if cs else None
            g = float(rows[k][len(rows[k]) - n_in + i])
            if all(x > 0 for x in tab):
                ctx.nt(("csv", case["metric"], case["bin_type"], T, tab))
            if ref is None:
                if not math.isnan(g):
                    ctx.fail("C06/undefined/%s" % case["metric"], case, "csv reports %r for table %r" % (g, tab))
            elif not cmpx.printed_ok(g, ref, 6, rel=2e-6):
                ctx.fail("C06/csv/%s" % case["metric"], case, "-x %s row %d input %d: csv %r, formula on table %r gives %r" % (axis, k, i, g, tab, ref))


def campaigns(tier):
    return [
        Enum("tables", table_items, check_tables, "all 2x2 tables with total <= N (N=12 quick, 22 thorough)"),
        Hyp("random-tables", random_tables, check_tables, quick=800, thorough=20000),
        Hyp("vectors", vector_strategy, check_vectors, quick=3200, thorough=80000, budget_quick=50, budget_thorough=1200),
        Hyp("csv", csv_strategy, check_csv, quick=960, thorough=16000, budget_quick=50, budget_thorough=1200),
    ]
