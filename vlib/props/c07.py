"""C07 - Event definitions (-b) are the documented open/closed intervals."""
import itertools
import os
import math

from hypothesis import strategies as st

from .. import model
from ..runner import Enum, Hyp

ID = "C07"
TITLE = "Event definitions (-b) are the documented open/closed intervals"
RULE = ("Exhaustive: every bin type x every non-decreasing threshold list of length 1-3 over a 3-value grid x the "
        "complete set of order relations of a value to the thresholds (below all, equal to each, strictly between, "
        "above all, NaN, +inf, -inf), scalar and array call forms, plus all value pairs for the 2x2 table; random: "
        "arbitrary float thresholds/values; counts-figure: the per-event counts drawn by -hist, freq and cond for generated "
        "datasets whose values lie exactly on the first/interior/last thresholds, all bin types the diagram accepts; coverage: -m quantilecoverage under all eight bin types with "
        "observations planted exactly on the lower / upper forecast quantile. "
        "Oracle: the documented comparison written as plain Python. "
        "A case (bin type, thresholds, value) is non-trivial when the value equals a threshold, is +-inf or NaN; "
        "distinct by content hash.")
ASSUMPTIONS = [
    "thresholds given to -r are finite and non-decreasing (within-family events use consecutive pairs)",
    "the documented meaning of the eight bin types is the one in the -b help text",
]

GRID = [0.0, 0.1, 2.5]   # 0.1 is not representable in float32


def threshold_lists():
    out = []
    for n in (1, 2, 3):
        for combo in itertools.combinations_with_replacement(GRID, n):
            out.append(list(combo))
    return out


def relation_values(thresholds):
    ts = sorted(set(thresholds))
    vals = [ts[0] - 1.0]
    for i, t in enumerate(ts):
        vals.append(t)
        if i + 1 < len(ts):
            vals.append((t + ts[i + 1]) / 2.0)
    vals.append(ts[-1] + 1.0)
    vals += [float("nan"), float("inf"), float("-inf")]
    return vals


def items(tier):
    return [{"bin_type": b, "thresholds": t} for b in model.BIN_TYPES for t in threshold_lists()]


def _is_boundary(x, thresholds):
    return model.isnan(x) or math.isinf(x) or x in thresholds


def _truthy(v):
    """Normalise verif's return value for one element: True / False / None (missing)."""
    import numpy as np
    if v is np.ma.masked:
        return None
    if isinstance(v, (float, np.floating)) and np.isnan(v):
        return None
    return bool(v)


def check_case(case, ctx):
    import numpy as np
    import verif.interval
    import verif.metric
    import verif.util

    b = case["bin_type"]
    T = [float(t) for t in case.get("thresholds", [0.0, 1.0])]
    values = [float(v) for v in case.get("values", relation_values(T))]
    evs = model.events(b, T)
    intervals = verif.util.get_intervals(b, np.array(T))
    ctx.label("bin=" + b)
    if len(intervals) != len(evs):
        ctx.fail("C07/interval/count", case, "get_intervals returned %d intervals, expected %d" % (len(intervals), len(evs)))
        return
    arr = np.array(values, float)
    inf_open = []
    for k, (t0, t1) in enumerate(evs):
        iv = intervals[k]
        res_arr = iv.within(arr)
        thr_arr = verif.util.apply_threshold(arr, b, t0, t1)
        for j, x in enumerate(values):
            exp = model.in_event(b, x, t0, t1)
            sub = {"bin_type": b, "thresholds": T, "values": [x]}
            if _is_boundary(x, T):
                ctx.nt((b, T, k, repr(x)))
            # infinite value at the open infinite end of below*/above*: listed finding, kept apart
            open_end = (math.isinf(x) and ((b.startswith("below") and x < 0) or (b.startswith("above") and x > 0)))
            key_iv = "C07/interval/inf-open-end" if open_end else "C07/interval"
            # scalar form
            got_s = _truthy(iv.within(x))
            if got_s != exp:
                ctx.fail(key_iv, sub, "Interval(%s).within(%r) scalar = %r, documented '%s' event gives %r" % (iv, x, got_s, b, exp))
            # array form
            got_a = _truthy(res_arr[j])
            if exp is None:
                # missing belongs to no event: masked or False, never True
                if got_a is True:
                    ctx.fail("C07/interval/nan", sub, "NaN counted as inside %s" % iv)
            elif got_a != exp:
                ctx.fail(key_iv, sub, "Interval(%s).within(array)[%r] = %r, documented '%s' gives %r" % (iv, x, got_a, b, exp))
            # binary thresholding
            got_t = thr_arr[j]
            if exp is None:
                if not np.isnan(got_t):
                    ctx.fail("C07/agree/apply_threshold", sub, "apply_threshold(NaN) = %r, expected NaN" % got_t)
            elif got_t != (1.0 if exp else 0.0):
                ctx.fail("C07/agree/apply_threshold", sub, "apply_threshold(%r,%s,%r,%r) = %r, documented gives %r" % (x, b, t0, t1, got_t, exp))
        # contingency tables from single pairs: (obs in event, fcst in event) -> a/b/c/d
        finite_vals = [v for v in values if not model.isnan(v)]
        A, B, C, D, N = verif.metric.A(), verif.metric.B(), verif.metric.C(), verif.metric.D(), verif.metric.N()
        for xo in finite_vals:
            for xf in finite_vals:
                if math.isinf(xo) or math.isinf(xf):
                    continue  # covered (and, for the open infinite end, listed) by C07/interval above
                eo = model.in_event(b, xo, t0, t1)
                ef = model.in_event(b, xf, t0, t1)
                exp_t = (int(ef and eo), int(ef and not eo), int((not ef) and eo), int((not ef) and (not eo)))
                o = np.array([xo])
                f = np.array([xf])
                got = tuple(int(round(float(m.compute_from_obs_fcst(o, f, iv)))) for m in (A, B, C, D))
                if got != exp_t:
                    ctx.fail("C07/agree/abcd", {"bin_type": b, "thresholds": T, "obs": xo, "fcst": xf},
                             "a,b,c,d for obs=%r fcst=%r event %s(%r,%r): got %r expected %r" % (xo, xf, b, t0, t1, got, exp_t))
        # pair with a missing member contributes to no cell
        o = np.array([T[0], np.nan, T[0] - 1.0])
        f = np.array([np.nan, T[0], T[-1] + 1.0])
        n = float(N.compute_from_obs_fcst(o, f, iv))
        if n != 1.0:
            ctx.fail("C07/agree/abcd-nan", {"bin_type": b, "thresholds": T}, "n=%r for one complete pair and two incomplete pairs" % n)
    # event probabilities
    for p0, p1 in [(0.0, 0.0), (0.25, 0.75), (0.0, 1.0), (1.0, 1.0), (0.5, 0.5)]:
        got = verif.util.apply_threshold_prob(np.array([p0]), b, np.array([p1]))[0]
        exp = model.event_prob(b, p0, p1)
        if got != exp:
            ctx.fail("C07/agree/prob", {"bin_type": b, "cdf": [p0, p1]}, "apply_threshold_prob=%r expected %r" % (got, exp))
    # partition laws
    fin = [v for v in values if not model.isnan(v)]
    if b == "within=" and len(T) >= 2 and T == sorted(T):
        for x in fin:
            memb = [bool(_truthy(iv.within(x))) for iv in intervals]
            inside = T[0] < x <= T[-1]
            if sum(memb) != (1 if inside else 0):
                if math.isinf(x):
                    continue
                ctx.fail("C07/partition/within=", {"bin_type": b, "thresholds": T, "values": [x]},
                         "x=%r is in %d of the consecutive within= events; (first,last] membership is %r" % (x, sum(memb), inside))
    if b == "above":
        below = verif.util.get_intervals("below=", np.array(T))
        for k in range(len(T)):
            for x in fin:
                if math.isinf(x):
                    continue
                a = bool(_truthy(intervals[k].within(x)))
                c = bool(_truthy(below[k].within(x)))
                if a == c:
                    ctx.fail("C07/partition/complement", {"thresholds": T, "values": [x]}, "above and below= agree on x=%r, t=%r" % (x, T[k]))
    ctx.evals += len(values) * max(1, len(evs)) - 1
    if any(_is_boundary(v, T) for v in values) and len(T) > 1:
        ctx.sample({'bin_type': b, 'thresholds': T, 'values': values})


def rand_strategy(tier):
    fl = st.one_of(st.floats(allow_nan=False, allow_infinity=False, width=64, min_value=-1e6, max_value=1e6),
                   st.sampled_from([0.1, 0.3, 0.7, -0.2, 1e-7, 123456.789, 1.0, 2.5]))
    val = st.one_of(fl, st.just(float("nan")), st.sampled_from([float("inf"), float("-inf")]))

    @st.composite
    def s(draw):
        b = draw(st.sampled_from(model.BIN_TYPES))
        T = sorted(draw(st.lists(fl, min_size=2 if b in model.WITHIN_TYPES else 1, max_size=4)))
        # values ON a threshold and values that miss it by the smallest amounts (one ulp, 1e-9 and 1e-6 relative):
        # membership is an exact comparison, not a comparison within a tolerance
        near = []
        for t in T:
            near += [t, math.nextafter(t, math.inf), math.nextafter(t, -math.inf), t + abs(t) * 1e-9 + 1e-12, t - abs(t) * 1e-9 - 1e-12,
                     t * (1 + 1e-6) + 1e-9, t * (1 - 1e-6) - 1e-9]
        vals = draw(st.lists(st.one_of(val, st.sampled_from(T), st.sampled_from(near), st.sampled_from(near)), min_size=1, max_size=6))
        return {"bin_type": b, "thresholds": T, "values": vals}
    return s()


def ens_strategy(tier):
    from .. import gen

    @st.composite
    def s(draw):
        spec = draw(gen.dataset(max_inputs=1, clim=False, flavor="ens", core_max=2, extra_max=0, allow_drop=False, max_members=4,
                                allow_obsless=False, allow_all_missing=False))
        members = sorted(set(v for pl in spec["inputs"][0]["ens"] for row in pl for cell in row for v in cell if v is not None)) or [0.0]
        T = sorted(draw(st.lists(st.sampled_from(members + [members[0] - 1, members[-1] + 1, 0.125]), min_size=2, max_size=2, unique=True)))
        return {"spec": spec, "bin_type": draw(st.sampled_from(model.BIN_TYPES)), "thresholds": T}
    return s()


def check_ens(case, ctx, key="C07/agree/ensemble-prob"):
    """Event probability derived from ensemble members: P(X<=upper) - P(X<=lower) with P(X<=t) the fraction of
    NON-MISSING members at or below t (a missing member belongs to no event); missing when no member is present."""
    import numpy as np
    import verif.axis
    import verif.metric
    import verif.util
    from .. import mat
    if "spec" not in case:
        return check_case(case, ctx)
    spec = case["spec"]
    b, T = case["bin_type"], case["thresholds"]
    d = spec["inputs"][0]
    data = mat.make_data(spec)
    evs = model.events(b, T)
    intervals = verif.util.get_intervals(b, np.array(T))
    ds = model.DS(spec)
    ctx.label("ens/bin=" + b)
    for (t0, t1), iv in zip(evs, intervals):
        try:
            obsP, p = verif.metric.get_p(data, 0, verif.axis.No(), 0, iv)
        except (Exception, SystemExit) as e:
            ctx.fail(key + "/exception", case, "%s: %s" % (type(e).__name__, e))
            return
        F = [("obs",), ("thr", t0)] + ([("thr", t1)] if t1 is not None else [])
        cs = ds.cases(F, 0)
        exp = sorted((1.0 if model.in_event(b, c[0], t0, t1) else 0.0, model.event_prob(b, c[1], c[2] if t1 is not None else None)) for c in cs)
        got = sorted(zip(np.asarray(obsP, float).ravel().tolist(), np.asarray(p, float).ravel().tolist()))
        got = [g for g in got if not (g[0] != g[0] and g[1] != g[1])]
        ctx.evals += 1
        if any(any(v is None for v in cell) and any(v is not None for v in cell) for pl in d["ens"] for row in pl for cell in row):
            ctx.nt((d["ens"], b, T))
            ctx.label("ens/partially-missing-members")
        if len(got) != len(exp) or not all(cmpx_close(a[0], e[0]) and cmpx_close(a[1], e[1], 2e-6) for a, e in zip(got, exp)):
            ctx.fail(key, case, "event %s(%r,%r): (event observed, probability) pairs %r; from the non-missing members %r" % (b, t0, t1, got[:6], exp[:6]))


COUNT_DIAGRAMS = ["hist", "hist", "freq", "cond"]


def counts_strategy(tier):
    """The diagrams that count values per event (-hist, freq, cond), with bin edges taken from the data so that
    values lie exactly on thresholds (first, interior and last)."""
    from .. import gen
    from . import c16

    @st.composite
    def s(draw):
        name = draw(st.sampled_from(COUNT_DIAGRAMS))
        spec = draw(gen.dataset(max_inputs=2, clim=False, flavor="det", core_max=3, extra_max=1, allow_drop=False, allow_obsless=False,
                                allow_all_missing=False, ordered_dims=True))
        opt = c16.DIAGRAMS[name]["cls"].options(draw, spec)
        vals = sorted(set(v for d in spec["inputs"] for nm in ("obs", "fcst") for pl in (d.get(nm) or []) for row in pl for v in row if v is not None))
        if len(vals) >= 2:
            # thresholds that ARE data values: the first, interior and last threshold all coincide with a value
            opt["edges"] = sorted(draw(st.lists(st.sampled_from(vals), min_size=2, max_size=4, unique=True)))
        return {"diagram": name, "spec": spec, "opt": opt}
    return s()


def check_counts(case, ctx):
    from . import c16
    if "diagram" not in case:
        return check_case(case, ctx)
    edges = case["opt"].get("edges") or []
    vals = set(v for d in case["spec"]["inputs"] for nm in ("obs", "fcst") for pl in (d.get(nm) or []) for row in pl for v in row if v is not None)
    if edges and edges[-1] in vals:
        ctx.label("counts/value-on-last-threshold")
    if edges and edges[0] in vals:
        ctx.label("counts/value-on-first-threshold")
    ctx.label("counts/%s/%s" % (case["diagram"], case["opt"].get("bin")))
    c16.check_diagram(case, ctx, pid="C07/counts")


def coverage_strategy(tier):
    """quantilecoverage: the event 'observation relative to the forecast quantile(s)' under each bin type, with
    observations planted exactly on the lower / upper quantile."""
    from .. import gen

    @st.composite
    def s(draw):
        spec = draw(gen.dataset(max_inputs=1, clim=False, flavor="prob", core_max=3, extra_max=0, allow_drop=False,
                                allow_obsless=False, allow_all_missing=False, per_input_layout=False))
        d = spec["inputs"][0]
        qs = sorted(d["quantiles"])
        if len(qs) < 2:
            qs = qs + [q for q in gen.Q_POOL if q not in qs][:1]
        cells = [(a, b, c) for a in range(len(d["obs"])) for b in range(len(d["obs"][a])) for c in range(len(d["obs"][a][b]))]
        plant = draw(st.lists(st.tuples(st.sampled_from(cells), st.sampled_from(["lo", "hi"])), min_size=1, max_size=max(1, len(cells) // 2)))
        return {"spec": spec, "bin_type": draw(st.sampled_from(model.BIN_TYPES)), "plant": [[list(c), w] for c, w in plant]}
    return s()


def check_coverage(case, ctx):
    from .. import cmpx, drive, mat
    if "plant" not in case:
        return check_case(case, ctx)
    import copy
    spec = copy.deepcopy(case["spec"])
    d = spec["inputs"][0]
    own = list(d.get("quantiles") or [])
    b = case["bin_type"]
    two = b in model.WITHIN_TYPES
    if len(own) < 2 and two:
        b = {"within": "above", "within=": "above=", "=within": "below", "=within=": "below="}[b]     # one stored level: a one-sided event
        two = False
    lo_q, hi_q = min(own), max(own)
    ilo, ihi = own.index(lo_q), own.index(hi_q)
    planted = 0
    for (a, bb, c), which in case["plant"]:
        cell = d["qs"][a][bb][c]
        v = cell[ilo if which == "lo" else ihi]
        if v is not None and d["obs"][a][bb][c] is not None:
            d["obs"][a][bb][c] = v
            planted += 1
    ds = model.DS(spec)
    if ds.empty:
        return
    base = os.path.join(ctx.scratch, "cov%d_%d" % (os.getpid(), ctx.evals))
    os.makedirs(base, exist_ok=True)
    paths, _ = mat.write_files(spec, base, "text")
    T = [lo_q, hi_q] if two else [hi_q]
    args = paths + ["-m", "quantilecoverage", "-q", ",".join(repr(float(q)) for q in T), "-b", b, "-x", "no", "-type", "csv"]
    r = drive.run(args)
    ctx.evals += 1
    ctx.label("coverage/bin=" + b)
    sub = dict(case)
    if r.exc is not None:
        ctx.fail("C07/agree/quantilecoverage/exception/" + r.exc_key, sub, r.tb[-500:])
        return
    if r.exit not in (None, 0):
        ctx.label("coverage/error-exit")
        return
    h, rows = drive.parse_csv(r.lines())
    F = [("obs",), ("q", lo_q), ("q", hi_q)] if two else [("obs",), ("q", hi_q)]
    cs = ds.cases(F, 0)
    if two:
        inside = [model.in_event(b, o, x0, x1) for o, x0, x1 in cs]
        ties = sum(1 for o, x0, x1 in cs if o == x0 or o == x1)
    else:
        inside = [model.in_event(b, o, x1, None) for o, x1 in cs]
        ties = sum(1 for o, x1 in cs if o == x1)
    exp = (sum(1 for x in inside if x) / float(len(cs))) if cs else float("nan")
    if ties:
        ctx.label("coverage/obs-on-quantile")
        ctx.nt(("coverage", b, cs))
        if len(cs) <= 6:
            ctx.sample({"metric": "quantilecoverage", "bin_type": b, "quantile_levels": T, "cases(obs,q...)": cs, "expected": exp})
    got = float(rows[0][-1]) if rows else float("nan")
    if not cmpx.printed_ok(got, exp, 6):
        ctx.fail("C07/agree/quantilecoverage", sub, "-m quantilecoverage -b %s -q %r: printed %r, the documented event gives %r on cases %r" % (b, T, got, exp, cs[:8]))


def cmpx_close(a, b, tol=1e-9):
    from .. import cmpx
    return cmpx.close(a, b, tol)


# ---- the conditional axes -x obs / -x fcst: which cases belong to the event of a row -----------------------------
def condaxis_strategy(tier):
    from .. import gen

    @st.composite
    def s(draw):
        spec = draw(gen.dataset(max_inputs=2, clim=False, flavor="det", core_max=3, extra_max=1, allow_drop=False, allow_obsless=False,
                                allow_all_missing=False))
        vals = sorted(set(v for d in spec["inputs"] for nm in ("obs", "fcst") for pl in (d.get(nm) or []) for row in pl for v in row if v is not None)) or [0.0]
        cand = sorted(set(vals + [vals[0] - 1, vals[-1] + 1] + [v + 0.125 for v in vals]))
        b = draw(st.sampled_from(model.BIN_TYPES))
        k = draw(st.integers(2, 4)) if b in model.WITHIN_TYPES else draw(st.integers(1, 3))
        T = sorted(draw(st.lists(st.sampled_from(cand), min_size=min(k, len(cand)), max_size=min(k, len(cand)), unique=True)))
        if b in model.WITHIN_TYPES and len(T) < 2:
            b = "above="
        return {"cond_axis": draw(st.sampled_from(["obs", "fcst"])), "metric": draw(st.sampled_from(["obs", "fcst", "mae", "bias"])),
                "spec": spec, "bin_type": b, "thresholds": T, "kind": draw(st.sampled_from(["text", "text", "netcdf"]))}
    return s()


_ccount = [0]


def check_condaxis(case, ctx):
    """-m M -x obs|fcst -r T -b B -agg count: row k counts the valid pairs whose observation (forecast) lies in the k-th documented
    event - the same events, ends and all, as everywhere else."""
    from .. import cmpx, drive, mat
    if "cond_axis" not in case:
        return check_case(case, ctx)
    spec = case["spec"]
    ds = model.DS(spec)
    if ds.empty:
        return
    _ccount[0] += 1
    d = os.path.join(ctx.scratch, "ca%d" % _ccount[0])
    os.makedirs(d)
    paths, _ = mat.write_files(spec, d, case["kind"])
    axis, name, b, T = case["cond_axis"], case["metric"], case["bin_type"], case["thresholds"]
    args = paths + ["-m", name, "-x", axis, "-r", ",".join(repr(float(t)) for t in T), "-b", b, "-agg", "count", "-type", "csv"]
    r = drive.run(args)
    ctx.evals += 1
    ctx.label("cond-axis/%s/-x %s" % (name, axis))
    if r.exc is not None:
        ctx.fail("C07/cond-axis/exc/" + r.exc_key, case, r.tb[-600:])
        return
    if r.exit not in (None, 0):
        ctx.label("cond-axis/error-exit")
        return
    h, rows = drive.parse_csv(r.lines())
    evs = model.events(b, T)
    n_in = len(spec["inputs"])
    if len(rows) != len(evs):
        ctx.fail("C07/cond-axis/rows", case, "%d rows for %d events" % (len(rows), len(evs)))
        return
    vals = set(v for dd in spec["inputs"] for nm in ("obs", "fcst") for pl in (dd.get(nm) or []) for row in pl for v in row if v is not None)
    if any(t in vals for t in T):
        ctx.nt(("cond-axis", axis, name, b, T, [dd["fcst"] for dd in spec["inputs"]], [dd["obs"] for dd in spec["inputs"]]))
    for k, (t0, t1) in enumerate(evs):
        for i in range(n_in):
            if name in ("obs", "fcst") and name == axis:
                cs = [(c[0], c[0]) for c in ds.cases([(name,)], i, "no", 0)]
                pos = 0
            else:
                cs = ds.cases([("obs",), ("fcst",)], i, "no", 0)
                pos = 0 if axis == "obs" else 1
            e = sum(1 for c in cs if model.in_event(b, c[pos], t0, t1))
            g = float(rows[k][len(rows[k]) - n_in + i])
            if not ((e == 0 and (g == 0 or math.isnan(g))) or cmpx.close(g, e)):
                ctx.fail("C07/cond-axis/count", case, "-m %s -x %s -b %s -r %r row %d input %d: %r cases, the documented event holds %d" % (name, axis, b, T, k, i, g, e))
                return


def campaigns(tier):
    return [
        Enum("relations", items, check_case, "8 bin types x 19 threshold lists x complete relation set"),
        Hyp("random", rand_strategy, check_case, quick=1600, thorough=40000),
        Hyp("ensemble-prob", ens_strategy, check_ens, quick=800, thorough=20000),
        Hyp("coverage", coverage_strategy, check_coverage, quick=480, thorough=10000, budget_quick=40, budget_thorough=900),
        Hyp("counts-figure", counts_strategy, check_counts, quick=640, thorough=12000, budget_quick=60, budget_thorough=1200),
        Hyp("conditional-axes", condaxis_strategy, check_condaxis, quick=480, thorough=12000, budget_quick=40, budget_thorough=900),
    ]
