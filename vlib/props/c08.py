"""C08 - Probabilistic scores follow their definitions; event probability from the CDF."""
import copy
import math
import os
import statistics

from hypothesis import strategies as st

from .. import cmpx, gen, model, mrun
from ..runner import Hyp

ID = "C08"
TITLE = "Probabilistic scores follow their definitions; event probability from the CDF"
RULE = ("(vectors) probability/outcome vectors with p in {0, 1, dyadic interior values, decimal bin edges} and constant or mixed "
        "outcomes through Bs/BsRel/BsRes/BsUnc/Bss/BssRel/BssRes.compute_from_obs_fcst against exact Fraction formulas; "
        "BS = REL - RES + UNC when every probability bin holds one forecast value; (datasets) generated files with cumulative "
        "probabilities, quantiles, PIT and ensembles (1-4 members, missing members), thresholds stored or not, all bin types: "
        "every probabilistic metric through the -type csv code path against the definition applied to the model's valid cases "
        "with P(event)=cdf(upper)-cdf(lower) (1/0 at infinite ends) or the fraction of members <= threshold; BS(event) = "
        "BS(complement); ensemble-derived quantiles lie within the member range, are monotone in the level, equal the common "
        "value of identical members and satisfy q(-ens,tau) = -q(ens,1-tau). Non-trivial: probabilities not all equal and "
        "both outcomes observed; distinct by hash.")
ASSUMPTIONS = [
    "reliability/resolution terms are judged with probabilities that are not within float noise of an interior decimal bin edge",
    "the interpolation rule of ensemble-derived quantiles is the implementation's: validity predicates only",
    "ensemble-derived probabilities are float32 in the tool: tolerance 2e-6",
]

BS_FAMILY = ["bs", "bsrel", "bsres", "bsunc", "bss", "bssrel", "bssres"]
BIN_REPS = [[0.0, 1 / 16.0], [1 / 8.0, 3 / 16.0], [1 / 4.0], [5 / 16.0, 3 / 8.0], [7 / 16.0], [1 / 2.0, 9 / 16.0], [5 / 8.0, 11 / 16.0],
            [3 / 4.0], [13 / 16.0, 7 / 8.0], [15 / 16.0, 1.0]]


def vector_strategy(tier):
    dy = st.integers(0, 16).map(lambda i: i / 16.0)
    dec = st.integers(0, 10).map(lambda i: i / 10.0)

    @st.composite
    def s(draw):
        n = draw(st.integers(0, 30 if tier == "quick" else 200))
        mode = draw(st.sampled_from(["dyadic", "dyadic", "one-per-bin", "decimal", "extremes"]))
        if mode == "dyadic":
            p = draw(st.lists(dy, min_size=n, max_size=n))
        elif mode == "decimal":
            p = draw(st.lists(dec, min_size=n, max_size=n))
        elif mode == "extremes":
            p = draw(st.lists(st.sampled_from([0.0, 1.0, 0.5]), min_size=n, max_size=n))
        else:
            reps = [draw(st.sampled_from(r)) for r in BIN_REPS]
            p = draw(st.lists(st.sampled_from(reps), min_size=n, max_size=n))
        omode = draw(st.sampled_from(["mixed", "mixed", "mixed", "all0", "all1"]))
        if omode == "mixed":
            o = draw(st.lists(st.sampled_from([0, 1]), min_size=n, max_size=n))
        else:
            o = [0 if omode == "all0" else 1] * n
        return {"p": p, "o": o, "mode": mode}
    return s()


def check_vectors(case, ctx):
    import numpy as np
    import verif.metric
    p, o = case["p"], case["o"]
    P = np.array(p, float)
    O = np.array(o, float)
    ctx.label("mode=" + case.get("mode", "replay"))
    nontriv = len(set(p)) > 1 and len(set(o)) > 1
    if nontriv:
        ctx.nt((p, o))
        ctx.label("nontrivial")
        if len(p) <= 8:
            ctx.sample(case)
    if any(x in (0.0, 1.0) for x in p):
        ctx.label("p_in_{0,1}")
    ref = model.brier_terms(p, o)
    edgy = any(model.near_decimal_edge(x) for x in p)
    got = {}
    for name in BS_FAMILY:
        if len(p) == 0:
            continue
        try:
            got[name] = float(verif.metric.get(name).compute_from_obs_fcst(O.copy(), P.copy()))
        except (Exception, SystemExit) as e:
            ctx.fail("C08/def/%s/exception" % name, dict(case, metric=name), "%s: %s" % (type(e).__name__, e))
            continue
        ctx.evals += 1
        if name in ("bsrel", "bsres", "bssrel", "bssres") and edgy:
            continue
        r = ref[name]
        if r is None:
            if not math.isnan(got[name]):
                ctx.fail("C08/def/%s" % name, dict(case, metric=name), "%s = %r where it is undefined (no uncertainty)" % (name, got[name]))
        elif not cmpx.close(got[name], r, 1e-9):
            ctx.fail("C08/def/%s" % name, dict(case, metric=name), "%s = %r, definition %r" % (name, got[name], r))
    # the skill-score forms are the same terms divided by the uncertainty, whatever bin a probability on a bin edge
    # (0.3, 0.6, 0.7 ...) is put in: every term must use ONE binning
    if len(p) > 0 and all(k in got for k in BS_FAMILY) and not math.isnan(got["bsunc"]) and got["bsunc"] > 0:
        if edgy:
            ctx.label("relations/p-on-decimal-edge")
        for a, b in (("bssres", "bsres"), ("bssrel", "bsrel")):
            if not cmpx.close(got[a] * got["bsunc"], got[b], 1e-9):
                ctx.fail("C08/relation/%s" % b, case, "%s x bsunc = %r but %s = %r: the two use different probability bins" % (a, got[a] * got["bsunc"], b, got[b]))
        if not cmpx.close(got["bss"] * got["bsunc"], got["bsunc"] - got["bs"], 1e-9):
            ctx.fail("C08/relation/bss", case, "bss x bsunc = %r but bsunc - bs = %r" % (got["bss"] * got["bsunc"], got["bsunc"] - got["bs"]))
    if case.get("mode") == "one-per-bin" and len(p) > 0 and all(k in got for k in ("bs", "bsrel", "bsres", "bsunc")):
        lhs = got["bs"]
        rhs = got["bsrel"] - got["bsres"] + got["bsunc"]
        if not cmpx.close(lhs, rhs, 1e-9):
            ctx.fail("C08/decomp", case, "BS = %r but REL - RES + UNC = %r with one forecast value per bin" % (lhs, rhs))
    if len(p) > 0 and "bs" in got:
        # complement: BS of the complementary event
        g2 = float(verif.metric.Bs().compute_from_obs_fcst(1 - O, 1 - P))
        if not cmpx.close(g2, got["bs"], 1e-12):
            ctx.fail("C08/complement/vector", case, "BS(event)=%r, BS(complement)=%r" % (got["bs"], g2))


# ---- datasets ------------------------------------------------------------------------------
DS_METRICS = ["bs", "bsrel", "bsres", "bsunc", "bss", "bssrel", "bssres", "ign0", "spherical", "marginalratio", "threshold",
              "quantilescore", "quantilecoverage", "spread", "spreadskillratio", "quantile", "pit", "pithistdev", "pithistslope", "pithistshape"]


def ds_strategy(tier):
    @st.composite
    def s(draw):
        flavor = draw(st.sampled_from(["prob", "prob", "full", "ens"]))
        spec = draw(gen.dataset(max_inputs=2, clim=False, flavor=flavor, core_max=3, extra_max=1, allow_drop=False,
                                max_members=4, allow_all_missing=False, allow_crossing=True))
        metrics = draw(st.lists(st.sampled_from(DS_METRICS), min_size=6, max_size=6, unique=True))
        b = draw(st.sampled_from(model.BIN_TYPES))
        stored = draw(st.booleans())
        qb = draw(st.sampled_from(["within", "within=", "=within", "=within=", "above", "above=", "below", "below="]))
        stored_set = set(t for d in spec["inputs"] for t in (d.get("thresholds") or []))
        members = sorted(set(v for d in spec["inputs"] if d.get("ens") is not None for pl in d["ens"] for row in pl for cell in row for v in cell
                             if v is not None and v not in stored_set))
        ens_t = sorted(draw(st.lists(st.sampled_from(members + [0.625, -0.625, 1.375]), min_size=2, max_size=2, unique=True)))
        return {"spec": spec, "metrics": metrics, "bin_type": b, "use_stored": stored, "qbin": qb, "ens_t": ens_t,
                "axis": draw(st.sampled_from(["no", "time", "leadtime", "location", "month", "threshold"]))}
    return s()


def common(spec, key):
    out = None
    for d in spec["inputs"]:
        s_ = set(d.get(key) or [])
        out = s_ if out is None else out & s_
    return sorted(out or [])


def _all(spec, key):
    return all(d.get(key) is not None for d in spec["inputs"])


def check_dataset(case, ctx):
    import numpy as np
    from .. import mat
    from ..runner import repo_frame_key
    spec = case["spec"]
    ds = model.DS(spec)
    if ds.empty:
        return
    n_in = len(spec["inputs"])
    th = common(spec, "thresholds")
    qs = common(spec, "quantiles")
    has_ens = _all(spec, "ens")
    has_pit = _all(spec, "pit")
    axis = case["axis"]
    b = case["bin_type"]
    for name in ([case["metric"]] if case.get("metric") else case["metrics"]):
        kind = mrun.kind_of(name)
        T = None
        bt = None
        fields = None
        if kind == "pthr":
            if case["use_stored"] and len(th) >= (2 if b in model.WITHIN_TYPES else 1):
                T = th[:2] if b in model.WITHIN_TYPES else th[:1]
                ctx.label("threshold_stored")
            elif has_ens:
                et = case.get("ens_t") or [-0.625, 1.375]
                T = list(et) if b in model.WITHIN_TYPES else [et[0]]
                ctx.label("threshold_from_ensemble")
            else:
                continue
            bt = b
        elif kind in ("q1", "q2"):
            if kind == "q2":
                if len(qs) < 2:
                    continue
                T, bt = [qs[0], qs[-1]], "within"
                if name == "spreadskillratio" and (T[0] <= 0 or T[1] >= 1):
                    continue
            elif name == "quantilecoverage":
                qb = case["qbin"]
                if qb in model.WITHIN_TYPES:
                    if len(qs) < 2:
                        continue
                    T, bt = [qs[0], qs[-1]], qb
                else:
                    if not qs:
                        continue
                    T, bt = [qs[0]], qb
            else:
                if not qs:
                    continue
                T, bt = [qs[0]], "above"
        elif kind == "pit":
            if not has_pit:
                continue
        else:
            continue
        use_axis = axis
        if axis == "threshold" and kind == "pit":
            use_axis = "no"
        ctx.label("metric=" + name)
        data = mat.make_data(spec)
        try:
            y = mrun.scores(data, name, use_axis, thresholds=T, bin_type=bt)
        except (Exception, SystemExit) as e:
            ctx.fail("C08/def/%s/exception" % name, dict(case, metric=name), "%s: %s (%s)" % (type(e).__name__, e, repo_frame_key(e)))
            continue
        # the same score computed once more on the same object (a second metric of the same event reads the same
        # cached probabilities): must be what it was the first time
        try:
            y_again = mrun.scores(data, name, use_axis, thresholds=T, bin_type=bt)
            if not cmpx.arrays_equal(y, y_again):
                ctx.fail("C08/def/%s/second-computation" % name, dict(case, metric=name),
                         "-m %s -b %s -r/-q %r: second computation on the same dataset object %r, first %r" % (name, bt, T, y_again.tolist(), y.tolist()))
        except (Exception, SystemExit):
            pass
        evs = model.events(bt, T) if T is not None else [(None, None)]
        if use_axis == "threshold":
            rows = [("no", 0, ev) for ev in evs]
        else:
            if len(evs) != 1:
                continue
            rows = [(use_axis, k, evs[0]) for k in range(ds.n_slices(use_axis))]
        if y.shape != (len(rows), n_in):
            ctx.fail("C08/def/shape", dict(case, metric=name), "score table shape %r, expected %r" % (y.shape, (len(rows), n_in)))
            continue
        for r, (ax, k, (t0, t1)) in enumerate(rows):
            for i in range(n_in):
                got = float(y[r, i])
                ctx.evals += 1
                ref, tol, judged = reference(name, kind, ds, i, ax, k, bt, t0, t1, ctx)
                if not judged:
                    continue
                sub = dict(case, metric=name, row=r, input=i)
                if ref is None:
                    if not (math.isnan(got) or math.isinf(got)):
                        ctx.fail("C08/def/%s" % name, sub, "%s reports %r where the definition is undefined on the valid cases" % (name, got))
                elif not cmpx.close(got, ref, tol):
                    key = "C08/p" if name == "threshold" else "C08/def/%s" % name
                    ctx.fail(key, sub, "-m %s -b %s -r/-q %r -x %s row %d input %d: %r, definition on the valid cases %r" % (name, bt, T, use_axis, r, i, got, ref))
        # BS(event) = BS(complement)
        if name == "bs" and bt in ("above", "below=", "above=", "below") and use_axis != "threshold":
            comp = {"above": "below=", "below=": "above", "above=": "below", "below": "above="}[bt]
            y2 = mrun.scores(mat.make_data(spec), "bs", use_axis, thresholds=T, bin_type=comp)
            if y.shape != y2.shape or not np.allclose(y, y2, rtol=2e-6, atol=1e-7, equal_nan=True):
                ctx.fail("C08/complement", dict(case, metric=name), "BS(%s)=%r, BS(%s)=%r" % (bt, y.tolist(), comp, y2.tolist()))


def reference(name, kind, ds, i, ax, k, bt, t0, t1, ctx):
    """-> (reference or None, tolerance, judged?)"""
    tol = 1e-9
    if kind == "pthr":
        F = [("obs",)]
        if bt in model.WITHIN_TYPES:
            F += [("thr", t0), ("thr", t1)]
        else:
            F += [("thr", t0)]
        stored = all(t0 in m.thresholds for m in ds.ins)
        if not stored:
            tol = 2e-6
        if name == "threshold":
            F = F[1:]
        cs = ds.cases(F, i, ax, k)
        if name == "threshold":
            if not cs:
                return None, tol, True
            vals = [(c[1] - c[0]) if len(c) == 2 else c[0] for c in cs]
            return math.fsum(vals) / len(vals), tol, True
        ps = []
        os_ = []
        for c in cs:
            if bt in model.WITHIN_TYPES:
                p = c[2] - c[1]
            else:
                p = model.event_prob(bt, c[1])
            ps.append(p)
            os_.append(1 if model.in_event(bt, c[0], t0, t1) else 0)
        if len(set(ps)) > 1 and len(set(os_)) > 1:
            ctx.nt((name, bt, t0, t1, ps, os_))
            ctx.label("nontrivial")
            if len(ps) <= 6:
                ctx.sample({"metric": name, "bin_type": bt, "thresholds": [t0, t1], "p": ps, "event_observed": os_})
        if any(x in (0.0, 1.0) for x in ps):
            ctx.label("p_in_{0,1}")
        if name in BS_FAMILY:
            if name in ("bsrel", "bsres", "bssrel", "bssres") and any(model.near_decimal_edge(x) or x < 0 for x in ps):
                return None, tol, False
            return model.brier_terms(ps, os_)[name], max(tol, 1e-9), True
        if name == "ign0":
            if any(x < 0 or x > 1 for x in ps):
                return None, tol, False
            return model.ign0(ps, os_), max(tol, 1e-9) * 10, True
        if name == "spherical":
            return model.spherical(ps, os_), tol, True
        if name == "marginalratio":
            return model.marginal_ratio(ps, os_), tol, True
    if kind in ("q1", "q2"):
        if name == "quantilescore":
            cs = ds.cases([("obs",), ("q", t0)], i, ax, k)
            return model.quantile_score([c[0] for c in cs], [c[1] for c in cs], t0), tol, True
        if name == "quantile":
            cs = ds.cases([("q", t0)], i, ax, k)
            return (math.fsum(c[0] for c in cs) / len(cs)) if cs else None, tol, True
        if name == "quantilecoverage":
            if bt in model.WITHIN_TYPES:
                cs = ds.cases([("obs",), ("q", t0), ("q", t1)], i, ax, k)
                if not cs:
                    return None, tol, True
                return sum(1 for o, a, b_ in cs if model.in_event(bt, o, a, b_)) / float(len(cs)), tol, True
            cs = ds.cases([("obs",), ("q", t0)], i, ax, k)
            if not cs:
                return None, tol, True
            return sum(1 for o, a in cs if model.in_event(bt, o, a)) / float(len(cs)), tol, True
        if name == "spread":
            cs = ds.cases([("q", t0), ("q", t1)], i, ax, k)
            return (math.fsum(b_ - a for a, b_ in cs) / len(cs)) if cs else None, tol, True
        if name == "spreadskillratio":
            cs = ds.cases([("q", t0), ("q", t1), ("fcst",), ("obs",)], i, ax, k)
            if not cs:
                return None, tol, True
            spread = math.fsum(c[1] - c[0] for c in cs) / len(cs)
            rmse = math.sqrt(math.fsum((c[3] - c[2]) ** 2 for c in cs) / len(cs))
            nd = statistics.NormalDist()
            num_std = 0.5 * (nd.inv_cdf(t1) - nd.inv_cdf(t0))
            if rmse == 0 or num_std == 0:
                return None, tol, True
            return spread / num_std / rmse, 1e-7, True
    if kind == "pit":
        cs = ds.cases([("pit",)], i, ax, k)
        pits = [c[0] for c in cs]
        if name == "pit":
            return (math.fsum(pits) / len(pits)) if pits else None, tol, True
        if name == "pithistdev":
            return model.pithist_dev(pits), tol, True
        if name == "pithistslope":
            return model.pithist_slope(pits), tol, True
        if name == "pithistshape":
            return model.pithist_shape(pits), 1e-8, True
    return None, tol, False


# ---- stored thresholds that are not exactly representable in the file's float32 ------------------
def stored_strategy(tier):
    @st.composite
    def s(draw):
        spec = draw(gen.dataset(max_inputs=1, clim=False, flavor="full", core_max=3, extra_max=0, allow_drop=False, allow_obsless=False,
                                max_members=3, allow_all_missing=False))
        shift = draw(st.sampled_from([0.3, 0.1, 1.1, 0.7]))
        return {"spec": spec, "shift": shift, "metric": draw(st.sampled_from(["bs", "bs", "threshold", "ign0", "bsrel"])),
                "axis": draw(st.sampled_from(["no", "leadtime", "location"])), "which": draw(st.integers(0, 2))}
    return s()


_scount = [0]


def check_stored(case, ctx):
    """The probability at a threshold the file stores comes from the file's cdf, also when the threshold (0.3, 1.1 ...)
    is only approximately representable in the NetCDF file's float32: the NetCDF and the text file give the same score."""
    import copy
    from .. import drive, mat
    if "shift" not in case:
        return check_dataset(case, ctx)
    spec = copy.deepcopy(case["spec"])
    d = spec["inputs"][0]
    if not d.get("thresholds"):
        return
    d["thresholds"] = [round(t + case["shift"], 6) for t in d["thresholds"]]
    t = sorted(d["thresholds"])[case["which"] % len(d["thresholds"])]
    _scount[0] += 1
    base = os.path.join(ctx.scratch, "st%d" % _scount[0])
    os.makedirs(base)
    nc = os.path.join(base, "f.nc")
    txt = os.path.join(base, "f.txt")
    mat.write_netcdf(d, spec, nc)
    mat.write_text(d, spec, txt)
    tail = ["-m", case["metric"], "-r", repr(float(t)), "-x", case["axis"], "-type", "csv"]
    r1 = drive.run([nc] + tail)
    r2 = drive.run([txt] + tail)
    ctx.evals += 1
    ctx.label("stored/" + case["metric"])
    sub = dict(case)
    for r in (r1, r2):
        if r.exc is not None:
            ctx.fail("C08/stored/exc/" + r.exc_key, sub, r.tb[-500:])
            return
    if r1.exit not in (None, 0) or r2.exit not in (None, 0):
        if (r1.exit in (None, 0)) != (r2.exit in (None, 0)):
            ctx.fail("C08/stored/exit", sub, "-r %r: NetCDF run exit %r (%s), text run exit %r (%s)" % (t, r1.exit, r1.error_lines()[:1], r2.exit, r2.error_lines()[:1]))
        return
    h1, rows1 = drive.parse_csv(r1.lines())
    h2, rows2 = drive.parse_csv(r2.lines())
    ctx.nt(("stored", t, case["metric"], case["axis"], d["cdf"], d.get("ens")))
    if len(rows1) != len(rows2):
        ctx.fail("C08/stored/rows", sub, "%d rows from the NetCDF file, %d from the text file" % (len(rows1), len(rows2)))
        return
    for k, (a, b) in enumerate(zip(rows1, rows2)):
        if not cmpx.close(float(a[-1]), float(b[-1]), 2e-5):
            ctx.fail("C08/stored/" + case["metric"], sub, "-m %s -r %r row %d: %r from the NetCDF file (threshold stored as float32), %r from the text file: the stored probability was not used"
                     % (case["metric"], t, k, a[-1], b[-1]))
            return


# ---- ensemble-derived quantiles: validity ---------------------------------------------------
def ensq_strategy(tier):
    @st.composite
    def s(draw):
        spec = draw(gen.dataset(max_inputs=1, clim=False, flavor="ens", core_max=3, extra_max=0, allow_drop=False,
                                max_members=5, allow_all_missing=False))
        levels = sorted(draw(st.lists(st.sampled_from([0.0, 0.05, 0.1, 0.25, 0.33, 0.5, 0.75, 0.9, 0.95, 1.0]), min_size=2, max_size=4, unique=True)))
        return {"spec": spec, "levels": levels}
    return s()


def check_ensq(case, ctx):
    import numpy as np
    import verif.axis
    import verif.field
    from .. import mat
    spec = case["spec"]
    levels = case["levels"]
    d = spec["inputs"][0]
    spec_neg = copy.deepcopy(spec)
    dn = spec_neg["inputs"][0]
    dn["ens"] = [[[[None if v is None else -v for v in cell] for cell in row] for row in pl] for pl in d["ens"]]
    data = mat.make_data(spec)
    datan = mat.make_data(spec_neg)
    ds = model.DS(spec)
    prev = None
    avail_first = None
    ens = mat.arr(d["ens"])
    # positions in sorted dims
    order_t = [d["ti"].index(i) for i in sorted(d["ti"], key=lambda i: spec["times"][i])]
    order_l = [d["li"].index(i) for i in sorted(d["li"], key=lambda i: spec["leadtimes"][i])]
    order_s = [d["si"].index(i) for i in sorted(d["si"], key=lambda i: spec["locs"][i]["id"])]
    ens = ens[order_t][:, order_l][:, :, order_s]
    complete = ~np.isnan(ens).any(axis=3)
    if complete.sum() and d["members"] >= 2:
        ctx.nt((d["ens"], levels))
        ctx.sample({"members": d["members"], "levels": levels, "ensemble_first_cell": d["ens"][0][0][0]})
    for q in levels:
        got = data.get_scores(verif.field.Quantile(q), 0, verif.axis.All(), None)
        gneg = datan.get_scores(verif.field.Quantile(round(1 - q, 10)), 0, verif.axis.All(), None)
        ctx.evals += 1
        sub = dict(case, level=q)
        if got.shape != complete.shape:
            ctx.fail("C08/ens-quantile/shape", sub, "shape %r vs %r" % (got.shape, complete.shape))
            return
        lo = np.nanmin(np.where(complete[..., None], ens, np.nan), axis=3) if complete.any() else None
        hi = np.nanmax(np.where(complete[..., None], ens, np.nan), axis=3) if complete.any() else None
        for idx in zip(*np.where(complete)):
            g = got[idx]
            if np.isnan(g) or g < lo[idx] - 1e-9 or g > hi[idx] + 1e-9:
                ctx.fail("C08/ens-quantile/range", sub, "quantile %g = %r outside the member range [%r, %r] of %r" % (q, g, lo[idx], hi[idx], ens[idx].tolist()))
                break
            if lo[idx] == hi[idx] and g != lo[idx]:
                ctx.fail("C08/ens-quantile/equal-members", sub, "all members equal %r but quantile %g = %r" % (lo[idx], q, g))
                break
            if prev is not None and g < prev[idx] - 1e-9:
                ctx.fail("C08/ens-quantile/monotone", sub, "quantile decreases with the level at %r" % (idx,))
                break
            if not cmpx.close(-gneg[idx], g, 1e-9):
                ctx.fail("C08/ens-quantile/symmetry", sub, "q(-ens, 1-%g) = %r but q(ens, %g) = %r" % (q, gneg[idx], q, g))
                break
        # cases with some (not all) members missing: whether the case yields a quantile is a matter of its members, not of the level
        # asked for; a value, where given, lies within the range of the members that exist and mirrors under negation
        partial = np.isnan(ens).any(axis=3) & ~np.isnan(ens).all(axis=3)
        if partial.any():
            ctx.label("ens-quantile/partly-missing-members")
            avail = ~np.isnan(got)
            if avail_first is None:
                avail_first = (q, avail)
            for idx in zip(*np.where(partial)):
                g = got[idx]
                members = ens[idx][~np.isnan(ens[idx])]
                if avail[idx] != avail_first[1][idx]:
                    ctx.fail("C08/ens-quantile/partial/level-dependent", sub, "members %r: level %g gives %r but level %g gives %r"
                             % (ens[idx].tolist(), avail_first[0], "a value" if avail_first[1][idx] else "missing", q, g))
                    break
                if avail[idx] and (g < members.min() - 1e-9 or g > members.max() + 1e-9):
                    ctx.fail("C08/ens-quantile/partial/range", sub, "members %r: level %g gives %r" % (ens[idx].tolist(), q, g))
                    break
                gn = gneg[idx]
                if np.isnan(gn) != np.isnan(g) or (avail[idx] and not cmpx.close(-gn, g, 1e-9)):
                    ctx.fail("C08/ens-quantile/partial/symmetry", sub, "members %r: q(ens, %g) = %r but q(-ens, 1-%g) = %r" % (ens[idx].tolist(), q, g, q, gn))
                    break
        if q == 0.0 and complete.any():
            if not np.allclose(got[complete], lo[complete]):
                ctx.fail("C08/ens-quantile/level0", sub, "level 0 is not the smallest member")
        if q == 1.0 and complete.any():
            if not np.allclose(got[complete], hi[complete]):
                ctx.fail("C08/ens-quantile/level1", sub, "level 1 is not the largest member")
        prev = got


def campaigns(tier):
    return [
        Hyp("vectors", vector_strategy, check_vectors, quick=4800, thorough=100000, budget_quick=40, budget_thorough=900),
        Hyp("datasets", ds_strategy, check_dataset, quick=1600, thorough=40000, budget_quick=55, budget_thorough=1500),
        Hyp("ens-quantile", ensq_strategy, check_ensq, quick=800, thorough=20000, budget_quick=40, budget_thorough=900),
        Hyp("stored-thresholds", stored_strategy, check_stored, quick=320, thorough=8000, budget_quick=40, budget_thorough=900),
    ]
