"""C09 - Text input files are read faithfully."""
import math
import os

from hypothesis import strategies as st

from .. import cmpx, gen, model
from ..runner import Hyp

ID = "C09"
TITLE = "Text input files are read faithfully"
RULE = ("Generated well-formed text files: one input of a generated dataset written with a random column order, a random "
        "documented subset of optional columns (date[+hour] or unixtime, leadtime or offset or none, location or id or none, "
        "altitude or elev or none, lat/lon optional), p<threshold>/q<quantile>/e<member>/pit/other-score columns, separators "
        "(spaces, tabs, runs), number spellings (3, 3.0, 3.25, 1e2, -0.5), comment and '# variable/units/x0/x1' lines at "
        "random positions, shuffled rows, dropped rows (sparse), every missing token. Oracle: after verif.input.Text(path) "
        "the times/leadtimes are the sorted sets of the rows written, locations carry the metadata of their id (matched by "
        "(lat,lon,elev) without an id column), every cell of obs, fcst, pit, ensemble, threshold_scores, quantile_scores, "
        "other fields holds the value written for its own coordinate (NaN for absent rows and missing tokens), thresholds/"
        "quantiles/members have their numeric values, and the variable metadata is set. Non-trivial: >=2 of {permuted columns, "
        "shuffled rows, sparse, a probabilistic column family}; distinct by hash of (content, style).")
ASSUMPTIONS = [
    "well-formed: one cell per header column in every row, valid dates, numeric ids, the same id always carries the same lat/lon/elev, header has at least one of obs/fcst/p*/q*",
    "no blank lines, '#' only in column 0, no duplicate coordinates (the reader documents neither)",
    "without an id column the locations are told apart by (lat, lon, elev) and all three columns are present",
]

SPELL = ["plain", "dot0", "exp", "plus"]


def spell_num(v, how):
    if v is None:
        return None
    if float(v) == int(v) and abs(v) < 1e9:
        i = int(v)
        if how == "dot0":
            return "%d.0" % i
        if how == "exp" and i % 10 == 0 and i != 0:
            e = 0
            m = i
            while m % 10 == 0:
                m //= 10
                e += 1
            return "%de%d" % (m, e)
        if how == "plus" and i > 0:
            return "+%d" % i
        return "%d" % i
    if how == "exp":
        return "%r" % float(v)
    return repr(float(v))


def strategy(tier):
    @st.composite
    def s(draw):
        flavor = draw(st.sampled_from(["det", "prob", "ens", "full", "full"]))
        spec = draw(gen.dataset(max_inputs=1, clim=False, flavor=flavor, core_max=3, extra_max=1, allow_drop=False,
                                max_members=3, allow_obsless=True, var_x=True, half_hours=True,
                                other_pool=("temp", "wind", "precip", "qflag", "extra", "pop", "e_x", "p1x")))
        spec["var"]["name"] = draw(st.sampled_from(["Temp", "Air temperature", "Precip 24h acc", "Precipitation: 24h accumulated", "RH (00:00 UTC run)", "T2m", "wind speed 10 m # raw", "units: none"]))
        spec["var"]["units"] = draw(st.sampled_from(["K", "deg C", "m s-1", "%", "g:kg", "m/s", "kg m-2 s-1", "1", "x0: 3"]))
        d = spec["inputs"][0]
        nrows = len(d["ti"]) * len(d["li"]) * len(d["si"])
        style = {
            "time": draw(st.sampled_from(["unixtime", "date+hour", "date", "none"])),
            "lead": draw(st.sampled_from(["leadtime", "leadtime", "offset", "none"])),
            "id": draw(st.sampled_from(["location", "id", "id", "none"])),
            "elev": draw(st.sampled_from(["altitude", "elev", "none"])),
            "lat": draw(st.booleans()),
            "lon": draw(st.booleans()),
            "cols": list(draw(st.permutations(range(40)))),
            "rows": list(draw(st.permutations(range(nrows)))) if draw(st.booleans()) else list(range(nrows)),
            "drop": draw(st.lists(st.sampled_from([False, False, False, True]), min_size=nrows, max_size=nrows)) if draw(st.booleans()) else [False] * nrows,
            "sep": draw(st.sampled_from([" ", "\t", "   ", " \t "])),
            "spell": draw(st.lists(st.sampled_from(SPELL), min_size=7, max_size=7)),
            "token": draw(st.lists(st.sampled_from(["-999", "nan", "NA", "missing", "-999.0", "NaN", "null"]), min_size=5, max_size=5)),
            "comments": draw(st.lists(st.integers(0, nrows + 1), max_size=3)),
            "meta_pos": draw(st.lists(st.integers(0, nrows + 1), min_size=4, max_size=4)),
            "permute_cols": draw(st.booleans()),
            # a file need not hold a forecast (or an observation) column: p<t> / q<level> columns alone make it a valid file
            "no_fcst": draw(st.sampled_from([False, False, False, True])),
            "no_obs": draw(st.sampled_from([False, False, True])),
            # numbers used in the e<member> column names (taken from the front): need not start at 0 or be contiguous
            "member_ids": draw(st.sampled_from([[0, 1, 2, 3], [0, 1, 2, 3], [1, 2, 3, 4], [1, 2, 4, 7], [4, 1, 2, 0], [10, 3, 7, 5]])),
        }
        return {"spec": spec, "style": style}
    return s()


def render(spec, style):
    """-> (text, expected) where expected describes what the reader must produce."""
    d = spec["inputs"][0]
    times = [spec["times"][i] for i in d["ti"]]
    leads = [spec["leadtimes"][i] for i in d["li"]]
    locs = [dict(spec["locs"][i]) for i in d["si"]]
    # restrictions implied by dropping coordinate columns
    a_idx = range(len(times))
    b_idx = range(len(leads))
    if style["time"] == "none":
        a_idx = [0]
    if style["lead"] == "none":
        b_idx = [0]
    tmap = {}
    if style["time"] == "date":
        seen = set()
        keep = []
        for a in a_idx:
            day = times[a] - times[a] % 86400
            if day not in seen:
                seen.add(day)
                keep.append(a)
                tmap[a] = day
        a_idx = keep
    id_col = style["id"]
    use_lat, use_lon, elev_col = style["lat"], style["lon"], style["elev"]
    if id_col == "none":
        use_lat = use_lon = True
        if elev_col == "none":
            elev_col = "elev"
        # locations must differ in (lat, lon, elev)
        seen = set()
        c_idx = []
        for c, loc in enumerate(locs):
            key = (loc["lat"], loc["lon"], loc["elev"])
            if key not in seen:
                seen.add(key)
                c_idx.append(c)
    else:
        c_idx = list(range(len(locs)))
    header = []
    if style["time"] == "unixtime":
        header.append("unixtime")
    elif style["time"] == "date+hour":
        header += ["date", "hour"]
    elif style["time"] == "date":
        header.append("date")
    if style["lead"] != "none":
        header.append(style["lead"])
    if id_col != "none":
        header.append(id_col)
    if use_lat:
        header.append("lat")
    if use_lon:
        header.append("lon")
    if elev_col != "none":
        header.append(elev_col)
    data_cols = []
    has_pq = bool(d.get("thresholds") or d.get("quantiles"))       # the header must name at least one of obs / fcst / p* / q*
    has_obs = d.get("obs") is not None and not (style.get("no_obs") and style.get("no_fcst") and has_pq)
    has_fcst = not (style.get("no_fcst") and has_pq)
    if has_obs:
        data_cols.append(("obs", None))
    if has_fcst:
        data_cols.append(("fcst", None))
    if d.get("pit") is not None:
        data_cols.append(("pit", None))
    for k, t in enumerate(d.get("thresholds") or []):
        data_cols.append(("cdf", k))
    for k, q in enumerate(d.get("quantiles") or []):
        data_cols.append(("qs", k))
    if d.get("ens") is not None:
        for m in range(d["members"]):
            data_cols.append(("ens", m))
    for nm in sorted((d.get("other") or {}).keys()):
        data_cols.append(("other", nm))

    member_ids = list((style.get("member_ids") or [0, 1, 2, 3]))[:d.get("members", 0) or 0]

    def col_name(kind, k):
        if kind in ("obs", "fcst", "pit"):
            return kind
        if kind == "cdf":
            return "p%g" % d["thresholds"][k]
        if kind == "qs":
            return "q%g" % d["quantiles"][k]
        if kind == "ens":
            return "e%d" % member_ids[k]
        return k
    header += [col_name(k, i) for k, i in data_cols]
    ncoord = len(header) - len(data_cols)
    rows = []
    expected = {}
    sp = style["spell"]
    tok = style["token"]
    n = 0
    for a in range(len(times)):
        for b in range(len(leads)):
            for c in range(len(locs)):
                n += 1
                if a not in a_idx or b not in b_idx or c not in c_idx:
                    continue
                if style["drop"][(n - 1) % len(style["drop"])]:
                    continue
                t = times[a]
                if style["time"] == "date":
                    t = tmap[a]
                elif style["time"] == "none":
                    t = 0
                l = leads[b] if style["lead"] != "none" else 0.0
                loc = locs[c]
                row = []
                if style["time"] == "unixtime":
                    row.append("%d" % t)
                elif style["time"] == "date+hour":
                    row.append("%d" % model.unix_to_date(t))
                    row.append(spell_num((t % 86400) / 3600.0, sp[0]))
                elif style["time"] == "date":
                    row.append("%d" % model.unix_to_date(t))
                if style["lead"] != "none":
                    row.append(spell_num(l, sp[1]))
                if id_col != "none":
                    row.append(spell_num(loc["id"], sp[2] if sp[2] != "exp" else "plain"))
                lat = loc["lat"] if use_lat else 0.0
                lon = loc["lon"] if use_lon else 0.0
                elev = loc["elev"] if elev_col != "none" else 0.0
                if use_lat:
                    row.append(spell_num(lat, sp[3]))
                if use_lon:
                    row.append(spell_num(lon, sp[4]))
                if elev_col != "none":
                    row.append(spell_num(elev, sp[5]))
                lkey = loc["id"] if id_col != "none" else (lat, lon, elev)
                vals = {}
                for j, (kind, k) in enumerate(data_cols):
                    if kind in ("obs", "fcst", "pit"):
                        v = d[kind][a][b][c]
                    elif kind in ("cdf", "qs", "ens"):
                        v = d[kind][a][b][c][k]
                    else:
                        v = d["other"][k][a][b][c]
                    row.append(tok[(j + n) % len(tok)] if v is None else spell_num(v, sp[(6 + j) % len(sp)] if kind != "pit" else "plain"))
                    vals[(kind, k)] = v
                rows.append(row)
                expected[(float(t), float(l), lkey)] = {"vals": vals, "meta": (lat, lon, elev)}
    if not rows:
        return None, None
    order = [r for r in style["rows"] if r < len(rows)] + [r for r in range(len(rows)) if r not in style["rows"]]
    rows = [rows[i] for i in order]
    if style["permute_cols"]:
        colp = [c for c in style["cols"] if c < len(header)] + [c for c in range(len(header)) if c not in style["cols"]]
        header = [header[i] for i in colp]
        rows = [[r[i] for i in colp] for r in rows]
    sep = style["sep"]
    lines = [sep.join(header)] + [sep.join(r) for r in rows]
    var = spec["var"]
    meta = ["# variable: %s" % var["name"], "# units: %s" % var["units"]]
    if var.get("x0") is not None:
        meta.append("# x0: %s" % spell_num(var["x0"], "plain"))
    if var.get("x1") is not None:
        meta.append("# x1: %s" % spell_num(var["x1"], "plain"))
    # metadata and comment lines at arbitrary positions
    inserts = []
    for m, pos in zip(meta, style["meta_pos"]):
        inserts.append((min(pos, len(lines)), m))
    for pos in style["comments"]:
        # free text, a bare '#', '#' followed by blanks only, '#' directly followed by text
        inserts.append((min(pos, len(lines)), ["# some free comment %d" % pos, "#", "#   ", "#note %d" % pos, "#\t"][pos % 5]))
    for pos, text in sorted(inserts, key=lambda t: -t[0]):
        lines.insert(pos, text)
    exp = {"cells": expected, "data_cols": data_cols, "var": var, "has_obs": has_obs, "has_fcst": has_fcst, "has_pit": d.get("pit") is not None,
           "thresholds": list(d.get("thresholds") or []), "quantiles": list(d.get("quantiles") or []), "members": d.get("members", 0) if d.get("ens") is not None else 0,
           "others": sorted((d.get("other") or {}).keys()), "by_id": id_col != "none", "ncoord": ncoord,
           "member_ids": member_ids if d.get("ens") is not None else []}
    return "\n".join(lines) + "\n", exp


_counter = [0]


def check_file(case, ctx):
    import numpy as np
    import verif.input
    spec, style = case["spec"], case["style"]
    text, exp = render(spec, style)
    if text is None:
        ctx.label("no-rows")
        return
    _counter[0] += 1
    path = os.path.join(ctx.scratch, "t%d.txt" % _counter[0])
    with open(path, "w") as f:
        f.write(text)
    ctx.evals += 1
    feats = [style["permute_cols"], style["rows"] != sorted(style["rows"]), any(style["drop"]), bool(exp["thresholds"] or exp["quantiles"] or exp["members"])]
    for nm, fl in zip(("permuted_cols", "shuffled_rows", "sparse", "prob_family"), feats):
        if fl:
            ctx.label(nm)
    ctx.label("time=" + style["time"])
    ctx.label("lead=" + style["lead"])
    ctx.label("id=" + style["id"])
    if sum(1 for x in feats if x) >= 2:
        ctx.nt((text,))
        ctx.label("nontrivial")
        ctx.sample({"file": text.splitlines()[:6]})
    sub = {"spec": spec, "style": style}
    try:
        inp = verif.input.Text(path)
    except (Exception, SystemExit) as e:
        from ..runner import repo_frame_key
        ctx.fail("C09/exception/%s" % (repo_frame_key(e) or type(e).__name__), sub, "%s: %s\n%s" % (type(e).__name__, e, text[:400]))
        return
    cells = exp["cells"]
    e_times = sorted(set(k[0] for k in cells))
    e_leads = sorted(set(k[1] for k in cells))
    if [float(t) for t in inp.times] != e_times:
        ctx.fail("C09/times", sub, "times %r, file has %r" % (list(inp.times), e_times))
        return
    if [float(l) for l in inp.leadtimes] != e_leads:
        ctx.fail("C09/leadtimes", sub, "leadtimes %r, file has %r" % (list(inp.leadtimes), e_leads))
        return
    # locations
    e_locs = {}
    for k, v in cells.items():
        e_locs[k[2]] = v["meta"]
    got_locs = {}
    for j, loc in enumerate(inp.locations):
        key = float(loc.id) if exp["by_id"] else (float(loc.lat), float(loc.lon), float(loc.elev))
        got_locs[key] = (j, (float(loc.lat), float(loc.lon), float(loc.elev)))
    if set(got_locs.keys()) != set((float(k) if exp["by_id"] else k) for k in e_locs):
        ctx.fail("C09/locations", sub, "locations %r, file has %r" % (sorted(got_locs.keys(), key=str), sorted(e_locs.keys(), key=str)))
        return
    for k, meta in e_locs.items():
        kk = float(k) if exp["by_id"] else k
        if got_locs[kk][1] != tuple(float(x) for x in meta):
            ctx.fail("C09/locations/metadata", sub, "location %r has metadata %r, file says %r" % (k, got_locs[kk][1], meta))
    if not exp["by_id"]:
        ids = [loc.id for loc in inp.locations]
        if len(set(ids)) != len(ids) or any(np.isnan(i) for i in ids):
            ctx.fail("C09/locations/auto-id", sub, "automatic ids are not unique numbers: %r" % ids)
    # dimensions of the probabilistic families
    if sorted(float(t) for t in inp.thresholds) != sorted(exp["thresholds"]):
        ctx.fail("C09/thresholds", sub, "thresholds %r, header has %r" % (list(inp.thresholds), exp["thresholds"]))
        return
    if sorted(round(float(q), 9) for q in inp.quantiles) != sorted(round(q, 9) for q in exp["quantiles"]):
        ctx.fail("C09/quantiles", sub, "quantiles %r, header has %r" % (list(inp.quantiles), exp["quantiles"]))
        return
    if inp.num_members != exp["members"]:
        ctx.fail("C09/members", sub, "%d ensemble members, header has %d" % (inp.num_members, exp["members"]))
        return
    if exp["members"] and [int(m) for m in inp.members] != sorted(exp["member_ids"]):
        ctx.fail("C09/members", sub, "member numbers %r, header has %r" % (list(inp.members), exp["member_ids"]))
        return
    m_pos = dict((m, r) for r, m in enumerate(sorted(exp["member_ids"])))
    if exp["member_ids"] and exp["member_ids"] != list(range(len(exp["member_ids"]))):
        ctx.label("members-not-0..n-1")
    if sorted(f for f in inp.other_fields if f != "pit") != exp["others"]:   # both readers also list pit among the other fields
        ctx.fail("C09/other-fields", sub, "other fields %r, header has %r" % (sorted(inp.other_fields), exp["others"]))
        return
    if (inp.obs is None) != (not exp["has_obs"]) or (inp.pit is None) != (not exp["has_pit"]) or (inp.fcst is None) != (not exp.get("has_fcst", True)):
        ctx.fail("C09/presence", sub, "obs/fcst/pit presence: obs %s fcst %s pit %s; header has obs=%s fcst=%s pit=%s"
                 % (inp.obs is not None, inp.fcst is not None, inp.pit is not None, exp["has_obs"], exp.get("has_fcst", True), exp["has_pit"]))
        return
    if not exp["has_obs"] and not exp.get("has_fcst", True):
        ctx.label("neither-obs-nor-fcst")
    elif not exp.get("has_fcst", True):
        ctx.label("no-fcst-column")
    th_pos = dict((float(t), j) for j, t in enumerate(inp.thresholds))
    q_pos = dict((round(float(q), 9), j) for j, q in enumerate(inp.quantiles))
    d = spec["inputs"][0]
    # every cell
    for a, t in enumerate(e_times):
        for b, l in enumerate(e_leads):
            for lk, (j, _) in got_locs.items():
                cell = cells.get((t, l, lk if not exp["by_id"] else _orig_key(e_locs, lk)))
                for kind, k in exp["data_cols"]:
                    if kind == "obs":
                        g = inp.obs[a, b, j]
                    elif kind == "fcst":
                        g = inp.fcst[a, b, j]
                    elif kind == "pit":
                        g = inp.pit[a, b, j]
                    elif kind == "cdf":
                        g = inp.threshold_scores[a, b, j, th_pos[float(d["thresholds"][k])]]
                    elif kind == "qs":
                        g = inp.quantile_scores[a, b, j, q_pos[round(float(d["quantiles"][k]), 9)]]
                    elif kind == "ens":
                        g = inp.ensemble[a, b, j, m_pos[exp["member_ids"][k]]]
                    else:
                        g = inp.other_score(k)[a, b, j]
                    e = None if cell is None else cell["vals"][(kind, k)]
                    ctx.evals += 1
                    if e is None:
                        if not np.isnan(g):
                            ctx.fail("C09/cell/%s/not-missing" % kind, sub, "(%r,%r,%r) %s%s read as %r but the file has no value there" % (t, l, lk, kind, "" if k is None else "[%s]" % k, g))
                            return
                    elif not cmpx.close(g, e, 1e-12):
                        ctx.fail("C09/cell/%s" % kind, sub, "(%r,%r,%r) %s%s read as %r, file has %r" % (t, l, lk, kind, "" if k is None else "[%s]" % k, g, e))
                        return
    # variable metadata
    var = exp["var"]
    v = inp.variable
    if v.name != var["name"] or v.units != var["units"]:
        ctx.fail("C09/variable", sub, "variable (%r, %r), file says (%r, %r)" % (v.name, v.units, var["name"], var["units"]))
    for nm in ("x0", "x1"):
        g = getattr(v, nm)
        e = var.get(nm)
        if (g is None) != (e is None) or (g is not None and float(g) != float(e)):
            ctx.fail("C09/variable/" + nm, sub, "%s = %r, file says %r" % (nm, g, e))


def _orig_key(e_locs, lk):
    for k in e_locs:
        if float(k) == lk:
            return k
    return lk


def campaigns(tier):
    return [
        Hyp("files", strategy, check_file, quick=3200, thorough=100000, budget_quick=55, budget_thorough=1500),
    ]
