"""C10 - NetCDF input is read faithfully and agrees with the text format."""
import copy
import os
import runpy
import sys

from hypothesis import strategies as st

from .. import cmpx, gen, model
from ..runner import Hyp

ID = "C10"
TITLE = "NetCDF input is read faithfully and agrees with the text format"
RULE = ("One input of a generated dataset (float32-representable numbers) written (a) as NetCDF in the documented layout with "
        "optional variables present/absent (altitude, location, lat/lon, threshold+cdf, quantile+x, ensemble, pit, other "
        "fields), dtype variants (int32/float64 time, float32/float64 data) and each missing encoding (fill/masked, -999, NaN, "
        "1e36) and (b) as text. Oracles: (read) every attribute of get_input(nc) equals the spec; (agree) get_input(nc) and "
        "get_input(txt) give equal dims, location metadata, fields and variable metadata and identical csv scores for a metric "
        "menu; (text2nc) scripts/text2nc.py followed by get_input preserves every value to float32 precision; (detect) files "
        "named without or with the wrong extension are detected by content. Non-trivial: >=2 optional variable families present "
        "and at least one missing value; distinct by hash of (content, layout).")
ASSUMPTIONS = [
    "values are exactly representable in float32; units are compared modulo the $...$ wrapping the NetCDF reader adds, and must be drawable as an axis label",
    "when the NetCDF file has no location variable the ids are 0..n-1 in file order; without altitude the elevation is not compared",
    "int32 time variables are only generated for times before 2038",
]

REPO_SCRIPTS = None
NC_FORMATS = ["NETCDF4", "NETCDF4_CLASSIC", "NETCDF3_CLASSIC", "NETCDF3_64BIT_OFFSET", "NETCDF3_64BIT_DATA"]


def scripts_dir():
    from .. import boot
    return os.path.join(boot.REPO, "scripts")


def strategy(tier):
    @st.composite
    def s(draw):
        flavor = draw(st.sampled_from(["det", "prob", "ens", "full", "full"]))
        spec = draw(gen.dataset(max_inputs=1, clim=False, flavor=flavor, core_max=3, extra_max=1, allow_drop=False,
                                max_members=3, allow_obsless=False, var_x=True))
        spec["var"]["units"] = draw(st.sampled_from(["K", "K", "%", "m/s", "mm", "m^2"]))
        layout = {"missing": draw(st.sampled_from(["fill", "-999", "nan", "big", "fill-9999", "missing_value"])),
                  "dtype": draw(st.sampled_from(["f4", "f4", "f8"])),
                  "time_dtype": draw(st.sampled_from(["f8", "f8", "i4"])),
                  "with_altitude": draw(st.sampled_from([True, True, False])),
                  "with_location": draw(st.sampled_from([True, True, False])),
                  "with_lat": draw(st.sampled_from([True, True, True, False])),
                  "with_lon": draw(st.sampled_from([True, True, True, False])),
                  "nc_format": draw(st.sampled_from(["NETCDF4", "NETCDF4", "NETCDF4"] + NC_FORMATS)),
                  "metric": draw(st.sampled_from(["mae", "rmse", "corr", "obs", "ets", "bs", "pit", "quantilescore"])),
                  "axis": draw(st.sampled_from(["no", "time", "leadtime", "location"]))}
        return {"spec": spec, "layout": layout}
    return s()


def _label_error(text):
    """None when matplotlib can lay out `text` as a label (what every plot does with the units), else the error."""
    try:
        from matplotlib.mathtext import MathTextParser
        if text.count("$") >= 2:
            MathTextParser("agg").parse(text)
        return None
    except Exception as e:  # noqa
        return "%s: %s" % (type(e).__name__, str(e).splitlines()[0][:80])


def normalise(spec, layout):
    """Apply the layout's implications to the spec so that both files describe the same dataset."""
    sp = copy.deepcopy(spec)
    d = sp["inputs"][0]
    if not layout["with_location"]:
        # ids become 0..n-1 in file order
        newlocs = []
        for pos, si in enumerate(d["si"]):
            loc = dict(sp["locs"][si])
            loc["id"] = pos
            newlocs.append(loc)
        sp["locs"] = newlocs
        d["si"] = list(range(len(newlocs)))
    # a NetCDF file without a lat (lon) variable describes locations at latitude (longitude) 0
    for key in ("lat", "lon"):
        if not layout.get("with_" + key, True):
            used = set(d["si"])
            sp["locs"] = [dict(loc, **{key: 0.0}) if k in used else loc for k, loc in enumerate(sp["locs"])]
    if layout["time_dtype"] == "i4" and any(t >= 2 ** 31 for t in sp["times"]):
        layout = dict(layout, time_dtype="f8")
    return sp, layout


_counter = [0]


def compare_input(ctx, key, sub, inp, d, sp, check_elev=True, tol=1e-6, only=None):
    """Attributes of a verif input against the spec of input d. Returns False after the first failure."""
    import numpy as np
    from .. import mat
    e_times = sorted(sp["times"][i] for i in d["ti"])
    e_leads = sorted(sp["leadtimes"][i] for i in d["li"])
    if [float(t) for t in inp.times] != [float(sp["times"][i]) for i in d["ti"]] and sorted(float(t) for t in inp.times) != [float(t) for t in e_times]:
        ctx.fail(key + "/times", sub, "times %r, file has %r" % (list(inp.times), e_times))
        return False
    if sorted(float(l) for l in inp.leadtimes) != [float(l) for l in e_leads]:
        ctx.fail(key + "/leadtimes", sub, "leadtimes %r, file has %r" % (list(inp.leadtimes), e_leads))
        return False
    locs = [sp["locs"][i] for i in d["si"]]
    got_ids = [float(loc.id) for loc in inp.locations]
    if sorted(got_ids) != sorted(float(l["id"]) for l in locs):
        ctx.fail(key + "/locations", sub, "location ids %r, file has %r" % (got_ids, [l["id"] for l in locs]))
        return False
    by_id = dict((float(l["id"]), l) for l in locs)
    for loc in inp.locations:
        e = by_id[float(loc.id)]
        if not (cmpx.close(loc.lat, e["lat"], tol) and cmpx.close(loc.lon, e["lon"], tol) and (not check_elev or cmpx.close(loc.elev, e["elev"], tol))):
            ctx.fail(key + "/locations/metadata", sub, "location %r has (%r,%r,%r), file says (%r,%r,%r)" % (loc.id, loc.lat, loc.lon, loc.elev, e["lat"], e["lon"], e["elev"]))
            return False
    # order maps: position in the reader's arrays for each spec index
    tpos = [list(np.asarray(inp.times, float)).index(float(sp["times"][i])) for i in d["ti"]]
    lpos = [list(np.asarray(inp.leadtimes, float)).index(float(sp["leadtimes"][i])) for i in d["li"]]
    spos = [got_ids.index(float(sp["locs"][i]["id"])) for i in d["si"]]

    def sel(a):
        return np.asarray(a, float)[tpos][:, lpos][:, :, spos]

    fields = [("obs", "obs", None), ("fcst", "fcst", None), ("pit", "pit", None), ("cdf", "threshold_scores", "thresholds"),
              ("qs", "quantile_scores", "quantiles"), ("ens", "ensemble", None)]
    for name, attr, dim in fields:
        if only is not None and name not in only:
            continue
        got = getattr(inp, attr)
        if d.get(name) is None:
            if name in ("obs", "fcst", "pit") and got is not None:
                ctx.fail(key + "/" + name, sub, "%s present although the file has none" % name)
                return False
            continue
        if got is None or (name == "ens" and np.asarray(got).shape[-1] == 0):
            ctx.fail(key + "/" + name, sub, "%s is missing from the reader's result" % name)
            return False
        try:
            g = sel(got)
        except IndexError:
            # an array whose shape does not match the dimensions the same reader reports
            ctx.fail(key + "/" + name + "/shape", sub, "%s has shape %r, the file's dimensions are %d times x %d lead times x %d locations"
                     % (name, np.asarray(got).shape, len(inp.times), len(inp.leadtimes), len(inp.locations)))
            return False
        e = mat.arr(d[name])
        if dim is not None:
            have = [round(float(x), 6) for x in getattr(inp, dim)]
            want = [round(float(x), 6) for x in d[dim]]
            if sorted(have) != sorted(want):
                ctx.fail(key + "/" + dim, sub, "%s %r, file has %r" % (dim, have, want))
                return False
            try:
                g = g[..., [have.index(x) for x in want]]
            except IndexError:
                ctx.fail(key + "/" + name + "/shape", sub, "%s has shape %r for %d %s" % (name, np.asarray(got).shape, len(have), dim))
                return False
        ctx.evals += 1
        if g.shape != e.shape or not np.array_equal(np.isnan(g), np.isnan(e)):
            ctx.fail(key + "/" + name + "/missing-mask", sub, "%s: missing mask differs from the file" % name)
            return False
        if not np.allclose(np.nan_to_num(g), np.nan_to_num(e), rtol=tol, atol=tol):
            ctx.fail(key + "/" + name, sub, "%s values differ: %r vs %r" % (name, g.ravel()[:6].tolist(), e.ravel()[:6].tolist()))
            return False
    for nm in sorted((d.get("other") or {}).keys()):
        if nm not in list(inp.other_fields):
            ctx.fail(key + "/other", sub, "other field %r not found (have %r)" % (nm, list(inp.other_fields)))
            return False
        try:
            g = sel(inp.other_score(nm))
        except IndexError:
            ctx.fail(key + "/other/shape", sub, "other field %r has shape %r" % (nm, np.asarray(inp.other_score(nm)).shape))
            return False
        e = mat.arr(d["other"][nm])
        if not np.array_equal(np.isnan(g), np.isnan(e)) or not np.allclose(np.nan_to_num(g), np.nan_to_num(e), rtol=tol, atol=tol):
            ctx.fail(key + "/other", sub, "other field %r differs" % nm)
            return False
    return True


def metric_args(spec, name):
    d = spec["inputs"][0]
    if name == "ets":
        return ["-r", "0.25"]
    if name == "bs":
        return ["-r", repr(float(d["thresholds"][0]))] if d.get("thresholds") else None
    if name == "pit":
        return [] if d.get("pit") is not None else None
    if name == "quantilescore":
        return ["-q", repr(float(d["quantiles"][0]))] if d.get("quantiles") else None
    return []


def check_agree(case, ctx):
    import numpy as np
    import verif.input
    from .. import drive, mat
    spec, layout = normalise(case["spec"], case["layout"])
    d = spec["inputs"][0]
    _counter[0] += 1
    base = os.path.join(ctx.scratch, "n%d" % _counter[0])
    os.makedirs(base)
    nc = os.path.join(base, "data.nc")
    txt = os.path.join(base, "data.txt")
    mat.write_netcdf(d, spec, nc, missing=layout["missing"], dtype=layout["dtype"], time_dtype=layout["time_dtype"],
                     with_altitude=layout["with_altitude"], with_location=layout["with_location"],
                     nc_format=layout.get("nc_format", "NETCDF4"), with_lat=layout.get("with_lat", True), with_lon=layout.get("with_lon", True))
    mat.write_text(d, spec, txt)
    fams = sum(1 for k in ("cdf", "qs", "ens", "pit", "other") if d.get(k))
    has_missing = any(v is None for pl in d["fcst"] for row in pl for v in row)
    ctx.label("missing=" + layout["missing"])
    ctx.label("dtype=%s/time=%s" % (layout["dtype"], layout["time_dtype"]))
    if fams >= 2 and has_missing:
        ctx.nt((d, layout))
        ctx.label("nontrivial")
        ctx.sample({"layout": layout, "families": [k for k in ("cdf", "qs", "ens", "pit", "other") if d.get(k)], "shape": [len(d["ti"]), len(d["li"]), len(d["si"])]})
    sub = dict(case)
    try:
        inc = verif.input.get_input(nc)
        itx = verif.input.get_input(txt)
    except (Exception, SystemExit) as e:
        from ..runner import repo_frame_key
        ctx.fail("C10/read/exception/%s" % (repo_frame_key(e) or type(e).__name__), sub, "%s: %s" % (type(e).__name__, e))
        return
    if not isinstance(inc, verif.input.Netcdf) or not isinstance(itx, verif.input.Text):
        ctx.fail("C10/detect", sub, "types: %s, %s" % (type(inc).__name__, type(itx).__name__))
        return
    if not compare_input(ctx, "C10/read", sub, inc, d, spec, check_elev=layout["with_altitude"]):
        return
    if not compare_input(ctx, "C10/agree/text", sub, itx, d, spec):
        return
    # variable metadata
    var = spec["var"]
    units_nc = inc.variable.units.replace("$", "")
    for who, u in (("nc", inc.variable.units), ("txt", itx.variable.units)):
        err = _label_error(u)
        if err:
            ctx.fail("C10/agree/variable-units-unusable", sub, "%s reader gives units %r for %r, which cannot be drawn as an axis label: %s" % (who, u, var["units"], err))
    if inc.variable.name != var["name"] or units_nc != var["units"] or itx.variable.name != var["name"] or itx.variable.units != var["units"]:
        ctx.fail("C10/agree/variable", sub, "variable nc=(%r,%r) txt=(%r,%r), written (%r,%r)" % (inc.variable.name, inc.variable.units, itx.variable.name, itx.variable.units, var["name"], var["units"]))
    for nm in ("x0", "x1"):
        a, b = getattr(inc.variable, nm), getattr(itx.variable, nm)
        e = var.get(nm)
        if not ((a is None and b is None and e is None) or (a is not None and b is not None and e is not None and float(a) == float(b) == float(e))):
            ctx.fail("C10/agree/variable-" + nm, sub, "%s: nc %r, txt %r, written %r" % (nm, a, b, e))
    # identical scores
    margs = metric_args(spec, layout["metric"])
    if layout["metric"] == "pit" and (var.get("x0") is not None or var.get("x1") is not None):
        # PIT values at the discrete mass are randomised (known finding C18/*/pit-randomized): excluded by construction
        ctx.exclude("pit-randomized (C18 known finding)")
        margs = None
    if margs is not None:
        tail = ["-m", layout["metric"], "-x", layout["axis"], "-type", "csv"] + margs
        np.random.seed(7)
        r1 = drive.run([nc] + tail)
        np.random.seed(7)
        r2 = drive.run([txt] + tail)
        ctx.evals += 1
        if r1.exc is not None or r2.exc is not None or r1.exit not in (None, 0) or r2.exit not in (None, 0):
            if (r1.exc is None) != (r2.exc is None) or r1.exit != r2.exit:
                ctx.fail("C10/agree/scores-outcome", sub, "nc: %s %s / txt: %s %s" % (r1.exc_key, r1.error_lines(), r2.exc_key, r2.error_lines()))
            return
        h1, rows1 = drive.parse_csv(r1.lines())
        h2, rows2 = drive.parse_csv(r2.lines())
        if len(rows1) != len(rows2):
            ctx.fail("C10/agree/scores", sub, "row counts differ %d vs %d" % (len(rows1), len(rows2)))
            return
        for a, b in zip(rows1, rows2):
            if a[-1] != b[-1] and not (a[-1] == "nan" and b[-1] == "nan"):
                ctx.fail("C10/agree/scores", sub, "-m %s -x %s: nc prints %r, txt prints %r" % (layout["metric"], layout["axis"], a, b))
                return
            if layout["with_altitude"] and [float(x) if _isnum(x) else x for x in a[:-1]] != [float(x) if _isnum(x) else x for x in b[:-1]]:
                ctx.fail("C10/agree/row-labels", sub, "row labels differ: %r vs %r" % (a[:-1], b[:-1]))
                return


def _isnum(x):
    try:
        float(x)
        return True
    except ValueError:
        return False


def text2nc_strategy(tier):
    @st.composite
    def s(draw):
        flavor = draw(st.sampled_from(["det", "prob", "ens", "full", "full"]))
        spec = draw(gen.dataset(max_inputs=1, clim=False, flavor=flavor, core_max=3, extra_max=1, allow_drop=False,
                                max_members=3, allow_obsless=False))
        return {"spec": spec}
    return s()


def run_script(name, argv):
    """Run a helper script in-process; returns (exit code or None, exception or None)."""
    import contextlib
    import io
    path = os.path.join(scripts_dir(), name)
    old = sys.argv
    sys.argv = [path] + [str(a) for a in argv]
    buf = io.StringIO()
    try:
        with contextlib.redirect_stdout(buf), contextlib.redirect_stderr(buf):
            runpy.run_path(path, run_name="__main__")
        return None, None, buf.getvalue()
    except SystemExit as e:
        return (e.code if e.code is not None else 0), None, buf.getvalue()
    except Exception as e:  # noqa
        return None, e, buf.getvalue()
    finally:
        sys.argv = old


def check_text2nc(case, ctx):
    import verif.input
    from .. import mat
    from ..runner import repo_frame_key
    spec = case["spec"]
    d = spec["inputs"][0]
    _counter[0] += 1
    base = os.path.join(ctx.scratch, "c%d" % _counter[0])
    os.makedirs(base)
    txt = os.path.join(base, "in.txt")
    out = os.path.join(base, "out.nc")
    mat.write_text(d, spec, txt)
    code, exc, outp = run_script("text2nc.py", [txt, out])
    ctx.evals += 1
    sub = dict(case)
    fams = [k for k in ("cdf", "qs", "ens", "pit", "other") if d.get(k)]
    if len(fams) >= 2:
        ctx.nt(("text2nc", d))
        ctx.label("nontrivial")
    for f in fams:
        ctx.label("has_" + f)
    if exc is not None:
        ctx.fail("C10/text2nc/exception/%s" % (repo_frame_key(exc) or type(exc).__name__), sub, "%s: %s" % (type(exc).__name__, exc))
        return
    if code not in (None, 0) or not os.path.exists(out):
        ctx.fail("C10/text2nc/failed", sub, "exit %r: %s" % (code, outp[-300:]))
        return
    inc = verif.input.get_input(out)
    d2 = dict(d)
    ens = d2.pop("ens", None)
    if not compare_input(ctx, "C10/text2nc", sub, inc, d2, spec):
        return
    if ens is not None:
        compare_input(ctx, "C10/text2nc-ensemble", sub, inc, d, spec, only=["ens"])
    var = spec["var"]
    if inc.variable.name != var["name"] or inc.variable.units.replace("$", "") != var["units"]:
        ctx.fail("C10/text2nc/variable", sub, "variable (%r,%r), text file says (%r,%r)" % (inc.variable.name, inc.variable.units, var["name"], var["units"]))


def detect_strategy(tier):
    @st.composite
    def s(draw):
        spec = draw(gen.dataset(max_inputs=1, clim=False, flavor="det", core_max=2, extra_max=0, allow_drop=False, allow_obsless=False))
        return {"spec": spec, "nc_name": draw(st.sampled_from(["data", "data.txt", "data.dat", "data.csv", "nc"])),
                "txt_name": draw(st.sampled_from(["table.nc", "table", "table.nc4", "table.netcdf"])),
                "nc_format": draw(st.sampled_from(NC_FORMATS))}
    return s()


def check_detect(case, ctx):
    import verif.input
    from .. import mat
    spec = case["spec"]
    d = spec["inputs"][0]
    _counter[0] += 1
    base = os.path.join(ctx.scratch, "d%d" % _counter[0])
    os.makedirs(base)
    nc = os.path.join(base, case["nc_name"])
    txt = os.path.join(base, case["txt_name"])
    mat.write_netcdf(d, spec, nc, nc_format=case.get("nc_format", "NETCDF4"))
    mat.write_text(d, spec, txt)
    ctx.evals += 1
    ctx.label("detect/format=" + case.get("nc_format", "NETCDF4"))
    ctx.nt((case["nc_name"], case["txt_name"], case.get("nc_format"), d["fcst"]))
    try:
        a = verif.input.get_input(nc)
        b = verif.input.get_input(txt)
    except (Exception, SystemExit) as e:
        ctx.fail("C10/detect/exception", case, "%s: %s" % (type(e).__name__, e))
        return
    if not isinstance(a, verif.input.Netcdf):
        ctx.fail("C10/detect/netcdf", case, "NetCDF content named %r opened as %s" % (case["nc_name"], type(a).__name__))
    if not isinstance(b, verif.input.Text):
        ctx.fail("C10/detect/text", case, "text content named %r opened as %s" % (case["txt_name"], type(b).__name__))
    compare_input(ctx, "C10/detect/content", dict(case), a, d, spec)
    compare_input(ctx, "C10/detect/content", dict(case), b, d, spec)


def campaigns(tier):
    return [
        Hyp("read-agree", strategy, check_agree, quick=1200, thorough=40000, budget_quick=55, budget_thorough=1500),
        Hyp("text2nc", text2nc_strategy, check_text2nc, quick=640, thorough=20000, budget_quick=45, budget_thorough=1200),
        Hyp("detect", detect_strategy, check_detect, quick=160, thorough=4000, budget_quick=30, budget_thorough=600),
    ]
