"""C11 - Slicing along -x partitions the cases using correct calendar buckets."""
import math
import os

from hypothesis import strategies as st

from .. import cmpx, dscheck, gen, model
from ..runner import Enum, Hyp

ID = "C11"
TITLE = "Slicing along -x partitions the cases using correct calendar buckets"
RULE = ("Generated datasets whose initialisation times concentrate on calendar boundaries (hours 0/6/12/18/23 around "
        "year, month, ISO-week and leap-day boundaries, 1970-2100) and whose lead times straddle multiples of 24 h. "
        "Oracles: (bucket) for each of the 16 -x dimensions the axis values equal the model's buckets from integer "
        "civil-calendar arithmetic and every slice holds exactly the valid cases of its bucket; (partition) slice counts "
        "add up to the pooled count and the count-weighted mean of slice MAE/bias equals the pooled value; (location) "
        "one slice per location labelled id/lat/lon/elev; (csv) `-x <axis> -agg count -type csv` rows; (conv) date <-> "
        "unixtime <-> datenum conversions are mutually inverse for every day 1900-2100 (exhaustive, 73414 days) and "
        "get_date agrees with day arithmetic. Non-trivial: >=2 buckets on the axis and one bucket with >=2 times; "
        "distinct by hash of (times, lead times, axis).")
ASSUMPTIONS = [
    "day of year: the partition by (month, day), its order, Jan 1 = 1 and the ordinal day in leap years are judged; "
    "the numbering of days after Feb 28 in non-leap years is the implementation's choice",
    "initialisation times are whole seconds >= 0",
]

ALL_AXES = model.TIME_AXES + model.LEADTIME_AXES + model.LOCATION_AXES + ["no"]


@st.composite
def time_opts(draw, spec):
    """Optionally a -d / -tod / -t selection that keeps a strict, non-empty subset of the initialisation times."""
    times = sorted(spec["times"])
    kind = draw(st.sampled_from(["none", "none", "dates", "tods", "times"]))
    if kind == "none" or len(times) < 2:
        return {}
    keep = [t for t in times if draw(st.booleans())] or times[:1]
    if kind == "dates":
        return {"dates": sorted(set(model.unix_to_date(t) for t in keep))}
    if kind == "tods":
        return {"tods": sorted(set((t % 86400) // 3600 for t in keep))}
    return {"times": [float(t) for t in keep]}


def strategy(tier):
    @st.composite
    def s(draw):
        spec = draw(gen.dataset(max_inputs=2, clim=False, flavor="det", core_max=4, extra_max=1, allow_drop=False, pre1970=True,
                                allow_all_missing=False, half_hours=draw(st.booleans())))
        return {"spec": spec, "opts": draw(time_opts(spec))}
    return s()


class process_tz(object):
    """Run a block with the process time zone set (the calendar buckets are defined in UTC whatever the machine's zone)."""
    def __init__(self, zone):
        self.zone = zone

    def __enter__(self):
        import time
        self.old = os.environ.get("TZ")
        if self.zone:
            os.environ["TZ"] = self.zone
            time.tzset()

    def __exit__(self, *a):
        import time
        if self.zone:
            if self.old is None:
                os.environ.pop("TZ", None)
            else:
                os.environ["TZ"] = self.old
            time.tzset()
        return False


TZ_POOL = [None, None, "PST8", "CET-1", "NZST-12", "UTC"]


def check_api(case, ctx):
    zone = TZ_POOL[len(case["spec"]["times"]) % len(TZ_POOL)] if "tz" not in case else case["tz"]
    if zone:
        ctx.label("tz=" + zone)
    with process_tz(zone):
        return _check_api(dict(case, tz=zone), ctx)


def _check_api(case, ctx):
    import numpy as np
    from .. import mat
    spec = case["spec"]
    opts = case.get("opts") or {}
    ds = model.DS(spec, opts)
    if ds.empty:
        return
    data = mat.make_data(spec, opts)
    if opts and ds.times != model.DS(spec).times:
        ctx.label("time-subset/" + sorted(opts)[0])
    n_in = len(spec["inputs"])
    F = [("obs",), ("fcst",)]
    pooled = [ds.cases(F, i, "no", 0) for i in range(n_in)]
    for axis in ALL_AXES:
        vax = mat.vaxis(axis)
        sl = ds.slices(axis)
        got_vals = [float(v) for v in data.get_axis_values(vax)]
        exp_vals = [float(b) for b, _ in sl]
        sub = {"spec": spec, "axis": axis, "opts": opts}
        ctx.evals += 1
        # non-triviality
        if axis in model.TIME_AXES:
            groups = {}
            for t in ds.times:
                groups.setdefault(model.time_bucket(axis, t), []).append(t)
            if len(groups) >= 2 and any(len(g) >= 2 for g in groups.values()):
                ctx.nt((axis, ds.times))
                ctx.label("nontrivial/" + axis)
                ctx.sample({"axis": axis, "times": ds.times, "buckets": sorted(groups.keys())})
        elif axis in model.LEADTIME_AXES:
            groups = {}
            for l in ds.leads:
                groups.setdefault(model.leadtime_bucket(axis, l), []).append(l)
            if len(groups) >= 2 and any(len(g) >= 2 for g in groups.values()):
                ctx.nt((axis, ds.leads))
                ctx.label("nontrivial/" + axis)
        if axis == "dayofyear":
            if len(got_vals) != len(exp_vals):
                ctx.fail("C11/bucket/dayofyear", sub, "%d buckets, model %d" % (len(got_vals), len(exp_vals)))
                continue
            if got_vals != sorted(set(got_vals)):
                ctx.fail("C11/bucket/dayofyear", sub, "bucket values not ascending/unique: %r" % got_vals)
            # value judged where unambiguous
            by_md = {}
            for t in ds.times:
                y, m, d = model.civil_from_days(t // 86400)
                by_md.setdefault((m, d), []).append(y)
            for (m, d), g in zip(sorted(by_md), got_vals):
                true_leap = model.day_of_year(2000, m, d)
                true_non = model.day_of_year(2001, m, d) if not (m == 2 and d == 29) else None
                allowed = {true_leap} if (m <= 2 or any(model.is_leap(y) for y in by_md[(m, d)])) else {true_leap, true_non}
                if g not in allowed:
                    ctx.fail("C11/bucket/dayofyear", sub, "day of year of %02d-%02d reported as %r, expected one of %r" % (m, d, g, sorted(allowed)))
        elif not (len(got_vals) == len(exp_vals) and all(cmpx.close(g, e) for g, e in zip(got_vals, exp_vals))):
            ctx.fail("C11/bucket/" + axis, sub, "axis values %r, model %r (times %r, leadtimes %r)" % (got_vals[:8], exp_vals[:8], ds.times, ds.leads))
            continue
    # cases per slice, for every axis (both directions)
    dscheck.check_slices(ctx, ID, spec, ds, data, [F, [("fcst",)]], ALL_AXES if not case.get("axis") else [case["axis"]], extra={"opts": opts})
    # partition laws on what verif returns
    for axis in ALL_AXES:
        vax = mat.vaxis(axis)
        n = data.get_axis_size(vax)
        for i in range(n_in):
            tot = 0
            wsum_mae = 0.0
            wsum_bias = 0.0
            for k in range(n):
                o, f = data.get_scores([mat.vfield(("obs",)), mat.vfield(("fcst",))], i, vax, k)
                t = cmpx.tuples_of([o, f])
                tot += len(t)
                wsum_mae += math.fsum(abs(a - b) for a, b in t)
                wsum_bias += math.fsum(b - a for a, b in t)
            ctx.evals += 1
            if tot != len(pooled[i]):
                ctx.fail("C11/partition/count/" + axis, {"spec": spec, "axis": axis, "input": i, "opts": opts},
                         "slice counts add up to %d, pooled count is %d" % (tot, len(pooled[i])))
            elif tot:
                pm = math.fsum(abs(a - b) for a, b in pooled[i])
                pb = math.fsum(b - a for a, b in pooled[i])
                if not (cmpx.close(wsum_mae, pm) and cmpx.close(wsum_bias, pb)):
                    ctx.fail("C11/partition/mean/" + axis, {"spec": spec, "axis": axis, "input": i}, "count-weighted slice means differ from the pooled mean")


def csv_strategy(tier):
    @st.composite
    def s(draw):
        spec = draw(gen.dataset(max_inputs=2, clim=False, flavor="det", core_max=4, extra_max=1, allow_drop=False, pre1970=True,
                                allow_all_missing=False, allow_obsless=False, half_hours=draw(st.booleans())))
        return {"spec": spec, "axis": draw(st.sampled_from(ALL_AXES)), "kind": draw(st.sampled_from(["text", "netcdf"]))}
    return s()


_counter = [0]


def check_csv(case, ctx):
    from .. import drive, mat
    spec = case["spec"]
    axis = case["axis"]
    ds = model.DS(spec)
    if ds.empty:
        return
    _counter[0] += 1
    d = os.path.join(ctx.scratch, "x%d" % _counter[0])
    os.makedirs(d)
    paths, _ = mat.write_files(spec, d, case["kind"])
    n_in = len(spec["inputs"])
    r = drive.run(paths + ["-m", "mae", "-agg", "count", "-x", axis, "-type", "csv"])
    r2 = drive.run(paths + ["-m", "mae", "-x", axis, "-type", "csv"])
    ctx.evals += 1
    ctx.label("csv/" + axis)
    for rr in (r, r2):
        if rr.exc is not None:
            ctx.fail("C11/csv/exc/" + rr.exc_key, case, rr.tb)
            return
        if rr.exit not in (None, 0):
            ctx.fail("C11/csv/exit", case, " | ".join(rr.error_lines()))
            return
    h, rows = drive.parse_csv(r.lines())
    h2, rows2 = drive.parse_csv(r2.lines())
    sl = ds.slices(axis)
    if len(rows) != len(sl) or len(rows2) != len(sl):
        ctx.fail("C11/csv/rows/" + axis, case, "%d rows, model %d slices" % (len(rows), len(sl)))
        return
    F = [("obs",), ("fcst",)]
    ctx.nt(("csv", axis, ds.times, ds.leads, ds.ids, [dd["fcst"] for dd in spec["inputs"]]))
    total = [0] * n_in
    for k, row in enumerate(rows):
        for i in range(n_in):
            cs = ds.cases(F, i, axis, k)
            g = float(row[len(row) - n_in + i])
            e = float(len(cs)) if cs else float("nan")
            total[i] += 0 if math.isnan(g) else g
            if not cmpx.close(g, e):
                ctx.fail("C11/csv/count/" + axis, case, "row %d input %d: count %r, model %r" % (k, i, g, e))
            g2 = float(rows2[k][len(row) - n_in + i])
            e2 = math.fsum(abs(o - f) for o, f in cs) / len(cs) if cs else float("nan")
            if not cmpx.printed_ok(g2, e2, 6, rel=2e-6):
                ctx.fail("C11/csv/mae/" + axis, case, "row %d input %d: mae %r, model %r" % (k, i, g2, e2))
        # row label
        if axis in ("time", "year", "month", "day", "week"):
            lab = model.format_time_label(axis, sl[k][0])
            if row[0] != lab:
                ctx.fail("C11/csv/label/" + axis, case, "row %d labelled %r, model %r" % (k, row[0], lab))
        elif axis in model.LOCATION_AXES:
            i_d = ds.ids[k]
            exp = [float(i_d), ds.meta[i_d]["lat"], ds.meta[i_d]["lon"], ds.meta[i_d]["elev"]]
            if [float(x) for x in row[:4]] != exp:
                ctx.fail("C11/location/label", case, "row %d labelled %r, model %r" % (k, row[:4], exp))
        elif axis != "no" and axis != "dayofyear":
            if not cmpx.close(float(row[0]), float(sl[k][0])):
                ctx.fail("C11/csv/label/" + axis, case, "row %d labelled %r, model %r" % (k, row[0], sl[k][0]))
    for i in range(n_in):
        if total[i] != len(ds.cases(F, i, "no", 0)):
            ctx.fail("C11/partition/csv-count/" + axis, case, "counts of input %d add up to %r, pooled %d" % (i, total[i], len(ds.cases(F, i, "no", 0))))


# ---- conversions, exhaustive -----------------------------------------------------------------
def conv_items(tier):
    first = model.days_from_civil(1900, 1, 1)
    last = model.days_from_civil(2100, 12, 31)
    # one item = a block of 512 consecutive days
    return [{"from": d, "to": min(d + 511, last)} for d in range(first, last + 1, 512)]


def check_conv(item, ctx):
    import verif.util
    if "date" in item:
        dd = item["date"]
        day0 = model.days_from_civil(dd // 10000, dd // 100 % 100, dd % 100)
        item = {"from": day0, "to": day0}
    for day in range(item["from"], item["to"] + 1):
        y, m, d = model.civil_from_days(day)
        date = y * 10000 + m * 100 + d
        ut = day * 86400
        ctx.evals += 1
        sub = {"date": date}
        got_ut = verif.util.date_to_unixtime(date)
        if got_ut != ut:
            ctx.fail("C11/conv/date_to_unixtime", sub, "date_to_unixtime(%d) = %r, calendar arithmetic %r" % (date, got_ut, ut))
            continue
        if verif.util.unixtime_to_date(got_ut) != date:
            ctx.fail("C11/conv/unixtime_to_date", sub, "unixtime_to_date(date_to_unixtime(%d)) = %r" % (date, verif.util.unixtime_to_date(got_ut)))
        if verif.util.unixtime_to_date(got_ut + 86399) != date:
            ctx.fail("C11/conv/unixtime_to_date", sub, "last second of %d maps to %r" % (date, verif.util.unixtime_to_date(got_ut + 86399)))
        dn = verif.util.date_to_datenum(date)
        if verif.util.datenum_to_date(dn) != date:
            ctx.fail("C11/conv/datenum_roundtrip", sub, "datenum_to_date(date_to_datenum(%d)) = %r" % (date, verif.util.datenum_to_date(dn)))
        if verif.util.unixtime_to_datenum(got_ut) != dn:
            ctx.fail("C11/conv/unixtime_to_datenum", sub, "unixtime_to_datenum != date_to_datenum for %d" % date)
        for k in (1, -1, 7, -7, 31, 366, -366):
            if verif.util.get_date(date, k) != model.add_days(date, k):
                ctx.fail("C11/conv/get_date", dict(sub, diff=k), "get_date(%d,%d) = %r, day arithmetic %r" % (date, k, verif.util.get_date(date, k), model.add_days(date, k)))
    ctx.nt(item)
    ctx.sample(item)


def campaigns(tier):
    return [
        Enum("conversions", conv_items, check_conv, "every calendar day 1900-01-01..2100-12-31 in 144 blocks of 512 days"),
        Hyp("api", strategy, check_api, quick=1200, thorough=30000, budget_quick=50, budget_thorough=1200),
        Hyp("csv", csv_strategy, check_csv, quick=800, thorough=20000, budget_quick=50, budget_thorough=1200),
    ]
