"""C12 - Text and CSV outputs report exactly the computed scores."""
import math
import os

from hypothesis import strategies as st

from .. import cmpx, gen, model, mrun
from ..runner import Hyp

ID = "C12"
TITLE = "Text and CSV outputs report exactly the computed scores"
RULE = ("Generated datasets (1-3 files, text or NetCDF) x metric with text output (all 70 standard metrics with suitable "
        "-r/-q/-b, plus obsfcst) x axis (16 data dimensions, threshold) x {csv, text} x {stdout, -f} x {-leg, none} x {-acc, "
        "not}. Oracles: (header) descriptor column(s) name the dimension, then one column per input in command-line order "
        "(legend names if given); (rows) one row per slice in axis order (ascending data dimensions, thresholds as given), "
        "leading fields identify the slice per the calendar model; (values) every cell equals the score computed through the "
        "API rounded to 6 (csv) / 4 (text) significant digits; (file) -f writes the same table to the file and prints no "
        "table; (acc) -acc reports running sums along the axis with NaN counted as 0. Non-trivial: >=2 inputs, >=2 rows and "
        "scores not all equal; distinct by hash of (dataset dims, metric, axis, options).")
ASSUMPTIONS = [
    "the computed score is Metric.compute on a Data object built from the same files (the metric's own correctness is C05/C06/C08); with several events on a non-threshold axis it is the mean over the events",
    "-leg names are generated without commas; '_' stands for a space",
    "day-of-year row labels are judged for order and count only",
]

AXES = model.DATA_AXES + ["threshold"]
DESC_NAMES = {"time": ["Time"], "year": ["Year"], "month": ["Month"], "week": ["Week"], "day": ["Day"],
              "timeofday": ["Timeofday"], "dayofyear": ["Dayofyear"], "dayofmonth": ["Dayofmonth"], "monthofyear": ["Monthofyear"],
              "leadtime": ["Leadtime"], "leadtimeday": ["Leadtimeday"], "no": ["No"], "threshold": ["Threshold"],
              "location": ["id", "lat", "lon", "elev"], "lat": ["id", "lat", "lon", "elev"], "lon": ["id", "lat", "lon", "elev"],
              "elev": ["id", "lat", "lon", "elev"]}


def strategy(tier):
    @st.composite
    def s(draw):
        flavor = draw(st.sampled_from(["det", "det", "prob", "full"]))
        spec = draw(gen.dataset(max_inputs=3, clim=False, flavor=flavor, core_max=3, extra_max=1, allow_drop=False,
                                max_members=2, allow_all_missing=False))
        # a quarter of the tables are of scores the reference model recomputes from the cases of the slice each row names
        name = draw(st.sampled_from(mrun.ALL * 3 + ["mae", "bias", "rmse"] * (len(mrun.ALL) // 3)))
        b = draw(st.sampled_from(model.BIN_TYPES))
        nthr = draw(st.integers(1, 3))
        axis = draw(st.sampled_from(AXES))
        if mrun.kind_of(name) in ("thr", "detr", "pthr", "q1") and draw(st.sampled_from([False, False, True])):
            axis = "threshold"          # the axis whose rows follow the order given on the command line
        return {"spec": spec, "metric": name, "axis": axis, "type": draw(st.sampled_from(["csv", "csv", "text"])),
                "to_file": draw(st.booleans()), "leg": draw(st.sampled_from([False, True, False, True, "dup", "samename"])), "acc": draw(st.sampled_from([False, False, True])),
                "kind": draw(st.sampled_from(["text", "netcdf"])), "bin_type": b, "nthr": nthr,
                "thr_seed": draw(st.lists(st.integers(-12, 12), min_size=3, max_size=3, unique=True)),
                "thr_perm": draw(st.sampled_from([None, None, [2, 0, 1], [1, 0, 2], [2, 1, 0], [0, 2, 1]]))}
    return s()


def metric_args(case):
    """-> (argv fragment, thresholds, bin_type) or None when the metric does not apply to the dataset."""
    out = _metric_args(case)
    perm = case.get("thr_perm")
    if out is None or not perm or out[1] is None or out[2] in model.WITHIN_TYPES or out[0][0] != "-r" or len(out[1]) < 2:
        return out
    # thresholds given in another order than ascending (rows must follow the order given); one-sided events only
    T = out[1]
    T2 = [T[i] for i in perm if i < len(T)]
    if T2 == T:
        return out
    return ["-r", ",".join(repr(float(t)) for t in T2)] + out[0][2:], T2, out[2]


def _metric_args(case):
    spec, name = case["spec"], case["metric"]
    kind = mrun.kind_of(name)
    axis = case["axis"]
    b = case["bin_type"]
    if kind == "det":
        if axis == "threshold":
            return None
        return [], None, None
    if kind == "pit":
        if axis == "threshold" or not all(d.get("pit") is not None for d in spec["inputs"]):
            return None
        return [], None, None
    if kind in ("detr", "thr"):
        T = sorted(x / 4.0 for x in case["thr_seed"])[:max(case["nthr"], 2 if b in model.WITHIN_TYPES else 1)]
        if kind == "detr":
            T = [abs(t) for t in T]
            T = sorted(set(T))
            if b in model.WITHIN_TYPES and len(T) < 2:
                return None
        if axis != "threshold" and case["nthr"] == 1:
            T = T[:2] if b in model.WITHIN_TYPES else T[:1]      # one event; otherwise the scores of the events are averaged
        return ["-r", ",".join(repr(float(t)) for t in T), "-b", b], T, b
    if kind == "pthr":
        th = None
        for d in spec["inputs"]:
            s_ = set(d.get("thresholds") or [])
            th = s_ if th is None else th & s_
        th = sorted(th or [])
        need = 2 if b in model.WITHIN_TYPES else 1
        if len(th) < need:
            return None
        T = th if (axis == "threshold" or case["nthr"] > 1) else th[:need]
        return ["-r", ",".join(repr(float(t)) for t in T), "-b", b], T, b
    if kind in ("q1", "q2"):
        qs = None
        for d in spec["inputs"]:
            s_ = set(d.get("quantiles") or [])
            qs = s_ if qs is None else qs & s_
        qs = sorted(qs or [])
        if kind == "q2":
            if len(qs) < 2 or (name == "spreadskillratio" and (qs[0] <= 0 or qs[-1] >= 1)):
                return None
            T = [qs[0], qs[-1]]
            return ["-q", ",".join(repr(float(t)) for t in T)], T, "within"
        if not qs:
            return None
        if name == "quantilecoverage":
            T = qs[:1]
        else:
            T = qs if axis == "threshold" else qs[:1]
        return ["-q", ",".join(repr(float(t)) for t in T)], T, "above"
    return None


_counter = [0]


def expected_scores(data, name, axis, T, bt):
    """The computed scores, taken from Metric.compute (not from the output classes): one row per event on the
    threshold axis; on every other axis the mean over the events of the per-slice scores."""
    import numpy as np
    import verif.axis
    import verif.metric
    import verif.util
    m = verif.metric.get(name)
    vax = verif.axis.get(axis)
    if bt is None:
        bt = m.default_bin_type or "above"
    intervals = verif.util.get_intervals(bt, None if T is None else np.array(T, float))
    F = data.num_inputs
    if axis == "threshold":
        y = np.zeros([len(intervals), F])
        for f in range(F):
            for i, iv in enumerate(intervals):
                y[i, f] = m.compute(data, f, vax, iv)[0]
        return y
    n = data.get_axis_size(vax)
    y = np.zeros([n, F])
    for f in range(F):
        acc = np.zeros(n)
        for iv in intervals:
            acc = acc + m.compute(data, f, vax, iv)
        y[:, f] = acc / len(intervals)
    return y


def parse_text(lines):
    rows = []
    for ln in lines:
        if "|" not in ln:
            continue
        cells = [c.strip() for c in ln.split("|")]
        if cells and cells[-1] == "":
            cells = cells[:-1]
        rows.append(cells)
    return (rows[0], rows[1:]) if rows else ([], [])


def check_table(case, ctx):
    import numpy as np
    import verif.data
    import verif.input
    from .. import drive, mat
    spec = case["spec"]
    ds = model.DS(spec)
    if ds.empty:
        return
    ma = metric_args(case)
    if ma is None:
        ctx.label("not-applicable")
        return
    margs, T, bt = ma
    axis = case["axis"]
    name = case["metric"]
    n_in = len(spec["inputs"])
    _counter[0] += 1
    d = os.path.join(ctx.scratch, "o%d" % _counter[0])
    os.makedirs(d)
    paths, _ = mat.write_files(spec, d, case["kind"])
    legend = ["Model_%d" % i if i % 2 == 0 else "run%d" % i for i in range(n_in)] if case["leg"] in (True, "dup") else None
    if case["leg"] == "dup" and n_in >= 2:
        legend[-1] = legend[0]          # two files given the same legend name: still one column per input file
        ctx.label("duplicate-column-names")
    if case["leg"] == "samename" and n_in >= 2:
        # files with the same base name in different directories: still one column per input file
        sub_d = os.path.join(d, "other")
        os.makedirs(sub_d)
        moved = os.path.join(sub_d, os.path.basename(paths[0]))
        os.rename(paths[-1], moved)
        paths[-1] = moved
        ctx.label("duplicate-column-names")
    args = paths + ["-m", name, "-x", axis, "-type", case["type"]] + margs
    if legend:
        args += ["-leg", ",".join(legend)]
    if case["acc"]:
        args += ["-acc"]
    out_path = os.path.join(d, "table.out")
    r = drive.run(args)
    ctx.evals += 1
    ctx.label("type=%s%s%s%s" % (case["type"], "/file" if case["to_file"] else "", "/leg" if legend else "", "/acc" if case["acc"] else ""))
    ctx.label("metric=" + name)
    sub = dict(case)
    if r.exc is not None:
        ctx.label("exception")
        ctx.fail("C12/exc/" + r.exc_key, sub, r.tb)
        return
    if r.exit not in (None, 0):
        ctx.fail("C12/exit", sub, " | ".join(r.error_lines()))
        return
    lines = [ln for ln in r.lines() if ln.strip() != ""]
    if case["to_file"]:
        rf = drive.run(args + ["-f", out_path])
        if rf.exc is not None or rf.exit not in (None, 0):
            ctx.fail("C12/file/run", sub, "the same command with -f failed: %s %s" % (rf.exc_key, rf.error_lines()))
            return
        if not os.path.exists(out_path):
            ctx.fail("C12/file/missing", sub, "-f did not create the file")
            return
        content = open(out_path).read()
        flines = [ln for ln in content.splitlines() if ln.strip() != ""]
        if flines != lines:
            ctx.fail("C12/file/content", sub, "file content differs from what is printed without -f:\n%s\n---\n%s" % ("\n".join(lines[:4]), "\n".join(flines[:4])))
        if any(ln.strip() for ln in rf.lines()):
            ctx.fail("C12/file/stdout", sub, "with -f the table (or other text) is still printed: %r" % rf.lines()[:3])
    # expected scores through the API on the same files
    inputs = [verif.input.get_input(p) for p in paths]
    data = verif.data.Data(inputs, legend=[l.replace("_", " ") for l in legend] if legend else None)
    try:
        y = expected_scores(data, name, axis, T, bt)
    except (Exception, SystemExit) as e:
        ctx.fail("C12/api-exception", sub, "%s: %s" % (type(e).__name__, e))
        return
    if case["acc"]:
        y = np.cumsum(np.nan_to_num(y), axis=0)
    if case["type"] == "csv":
        header, rows = drive.parse_csv(lines)
        digits = 6
    else:
        header, rows = parse_text(lines)
        digits = 4
    nd = len(DESC_NAMES[axis])
    # header
    exp_names = [l.replace("_", " ") for l in legend] if legend else [os.path.basename(p) for p in paths]
    if header[nd:] != exp_names:
        ctx.fail("C12/header/inputs", sub, "input columns %r, expected %r" % (header[nd:], exp_names))
        return
    if [h.lower() for h in header[:nd]] != [h.lower() for h in DESC_NAMES[axis]]:
        ctx.fail("C12/header/descriptors", sub, "descriptor columns %r for -x %s" % (header[:nd], axis))
    # rows
    if axis == "threshold":
        evs = model.events(bt, T)
        exp_rows = [[ev[0]] for ev in evs]
        ctx.label("threshold-axis")
    else:
        sl = ds.slices(axis)
        if axis in model.LOCATION_AXES:
            exp_rows = [[float(i), ds.meta[i]["lat"], ds.meta[i]["lon"], ds.meta[i]["elev"]] for i in ds.ids]
        elif axis in ("time", "year", "month", "week", "day"):
            exp_rows = [[model.format_time_label(axis, bkt)] for bkt, _ in sl]
        else:
            exp_rows = [[float(bkt)] for bkt, _ in sl]
    if len(rows) != len(exp_rows) or y.shape[0] != len(exp_rows):
        ctx.fail("C12/rows/count", sub, "%d rows printed, %d slices expected (API gives %d)" % (len(rows), len(exp_rows), y.shape[0]))
        return
    if n_in >= 2 and len(rows) >= 2 and len(set(np.round(y[~np.isnan(y)], 9).tolist())) > 1:
        ctx.nt((name, axis, case["type"], case["acc"], case["leg"], ds.times, ds.leads, ds.ids, T, bt, [dd["fcst"] for dd in spec["inputs"]]))
        ctx.label("nontrivial")
        ctx.sample({"argv": [os.path.basename(a) if os.sep in a else a for a in args], "output": lines[:5]})
    for k, (row, erow) in enumerate(zip(rows, exp_rows)):
        if len(row) != nd + n_in:
            ctx.fail("C12/rows/width", sub, "row %d has %d fields, expected %d" % (k, len(row), nd + n_in))
            return
        for j, e in enumerate(erow):
            cell = row[j]
            if isinstance(e, str):
                ok = cell == e
            elif axis == "dayofyear":
                ok = True
            else:
                try:
                    ok = cmpx.close(float(cell), float("%.6g" % e) if case["type"] == "text" else e, 1e-6)
                except ValueError:
                    ok = False
            if not ok:
                ctx.fail("C12/rows/label/" + axis, sub, "row %d descriptor %r, expected %r" % (k, row[:nd], erow))
                break
        for i in range(n_in):
            cell = row[nd + i]
            try:
                g = float(cell)
            except ValueError:
                ctx.fail("C12/values/unparsable", sub, "cell %r" % cell)
                continue
            if name in ("mae", "bias", "rmse") and axis != "threshold" and not case["acc"]:
                # the number in a row is the score of the slice the row's leading fields name (independent reference)
                ref = model.det_metric(name, ds.cases([("obs",), ("fcst",)], i, axis, k))
                ctx.label("row-vs-named-slice")
                if not cmpx.printed_ok(g, float("nan") if ref is None else ref, digits):
                    ctx.fail("C12/values/row-vs-named-slice", sub, "-x %s row %d (%r) input %d: printed %r, the cases of that slice give %s = %r"
                             % (axis, k, row[:nd], i, cell, name, ref))
            e = float(y[k, i])
            if math.isnan(e) or math.isinf(e):
                ok = (math.isnan(g) and math.isnan(e)) or g == e
            else:
                ok = g == float("%.*g" % (digits, e))
            if not ok:
                ctx.fail("C12/values/" + case["type"] + ("/acc" if case["acc"] else ""), sub,
                         "row %d input %d: printed %r, computed score %r (=%s to %d digits)" % (k, i, cell, e, "%.*g" % (digits, e), digits))


def obsfcst_strategy(tier):
    @st.composite
    def s(draw):
        spec = draw(gen.dataset(max_inputs=3, clim=False, flavor=draw(st.sampled_from(["det", "prob", "prob", "full"])), core_max=3, extra_max=1,
                                allow_drop=False, allow_all_missing=False, max_members=2))
        return {"spec": spec, "axis": draw(st.sampled_from(["time", "leadtime", "location", "month", "no", "leadtimeday"])),
                "type": draw(st.sampled_from(["csv", "text"])), "kind": draw(st.sampled_from(["text", "netcdf"])),
                "with_q": draw(st.sampled_from([True, True, False])), "q_rev": draw(st.booleans()),
                "acc": draw(st.sampled_from([False, False, True])),
                "agg": draw(st.sampled_from([None, None, "max", "min", "median", "sum", "count"]))}
    return s()


def check_obsfcst(case, ctx):
    from .. import drive, mat
    spec = case["spec"]
    ds = model.DS(spec)
    if ds.empty:
        return
    _counter[0] += 1
    d = os.path.join(ctx.scratch, "q%d" % _counter[0])
    os.makedirs(d)
    paths, _ = mat.write_files(spec, d, case["kind"])
    axis = case["axis"]
    qs = []
    if case.get("with_q"):
        common = None
        for dd in spec["inputs"]:
            s_ = set(dd.get("quantiles") or [])
            common = s_ if common is None else common & s_
        qs = sorted(common or [])
        if case.get("q_rev"):
            qs = qs[::-1]                 # columns follow the order given
    qargs = ["-q", ",".join(repr(float(q)) for q in qs)] if qs else []
    acc, agg = bool(case.get("acc")), case.get("agg")
    if acc:
        qargs = qargs + ["-acc"]
    if agg:
        qargs = ["-agg", agg] + qargs
    r = drive.run(paths + ["-m", "obsfcst", "-x", axis, "-type", case["type"]] + qargs)
    ctx.evals += 1
    ctx.label("obsfcst/%s%s" % ("acc" if acc else "plain", "/agg" if agg else ""))
    if len(qs) >= 2 and len(paths) >= 2:
        ctx.label("obsfcst/quantile-columns>=2x2")
    if r.exc is not None:
        ctx.fail("C12/obsfcst/exc/" + r.exc_key, case, r.tb)
        return
    if r.exit not in (None, 0):
        ctx.fail("C12/obsfcst/exit", case, " | ".join(r.error_lines()))
        return
    lines = [ln for ln in r.lines() if ln.strip() != ""]
    header, rows = drive.parse_csv(lines) if case["type"] == "csv" else parse_text(lines)
    digits = 6 if case["type"] == "csv" else 4
    n_in = len(spec["inputs"])
    nd = len(DESC_NAMES[axis])
    exp_hdr = ["obs"] + [os.path.basename(p) for p in paths] + ["%s %g%%" % (os.path.basename(p), q * 100) for q in qs for p in paths]
    if header[nd:] != exp_hdr:
        ctx.fail("C12/obsfcst/header", case, "columns %r, expected %r" % (header[nd:], exp_hdr))
        return
    if len(rows) != ds.n_slices(axis):
        ctx.fail("C12/obsfcst/rows", case, "%d rows, %d slices" % (len(rows), ds.n_slices(axis)))
        return
    ctx.nt(("obsfcst", axis, case["type"], acc, agg, ds.times, ds.leads, ds.ids, [dd["fcst"] for dd in spec["inputs"]]))

    def stat(vals):
        """the slice's statistic: the mean, or the -agg function"""
        if agg:
            if not vals and agg != "count":
                return float("nan")
            v = model.aggregate(agg, vals)
            return float("nan") if v is None else v
        return math.fsum(vals) / len(vals) if vals else float("nan")

    # columns: obs (cases where input 0 has obs and fcst), one fcst column per input, then one per (quantile, input) in header order
    columns = [(0, [("obs",), ("fcst",)], 0, "values")] + [(i, [("obs",), ("fcst",)], 1, "values") for i in range(n_in)]
    columns += [(i, [("q", q), ("obs",)], 0, "quantile-values") for q in qs for i in range(n_in)]
    running = [0.0] * len(columns)
    for k, row in enumerate(rows):
        for col, (i, fields, pos, what) in enumerate(columns):
            cs = ds.cases(fields, i, axis, k)
            e = stat([c[pos] for c in cs])
            if agg == "count" and not cs:
                e = float(row[nd + col]) if float(row[nd + col]) in (0.0,) or math.isnan(float(row[nd + col])) else e   # count of nothing: 0 or NaN
            if acc:
                running[col] += 0.0 if math.isnan(e) else e
                e = running[col]
            g = float(row[nd + col])
            if not cmpx.printed_ok(g, e, digits):
                ctx.fail("C12/obsfcst/" + what, case, "row %d column %r: %r, %s of that column's values over the slice's valid cases%s gives %r"
                         % (k, header[nd + col], g, agg or "mean", " (running sum, -acc)" if acc else "", e))
                return


def campaigns(tier):
    return [
        Hyp("tables", strategy, check_table, quick=2000, thorough=50000, budget_quick=55, budget_thorough=1500),
        Hyp("obsfcst", obsfcst_strategy, check_obsfcst, quick=320, thorough=8000, budget_quick=40, budget_thorough=900),
    ]
