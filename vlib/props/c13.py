"""C13 - Command-line options mean what the help text says."""
import copy
import math
import os
from decimal import Decimal

from hypothesis import strategies as st

from .. import cmpx, gen, model
from ..runner import Enum, Hyp

ID = "C13"
TITLE = "Command-line options mean what the help text says"
RULE = ("(model) command lines drawn from the documented option grammar over generated datasets - -m (mae, bias, rmse, corr, "
        "obs, fcst, ets, hit, far, threat, n), -x (16 dimensions + threshold), -agg, -r/-b, -c/-C, -T/-Tagg/-Tx, -fcst <field>, "
        "the subsetting options with data-relative values, -leg, -acc, -type csv|text, vector arguments rendered in random "
        "equivalent spellings (3,4,5 / 3:5 / 3:1:5) - whose stdout table must equal the prediction of an independent model "
        "of the documented semantics; (order) any permutation of the option groups gives identical output; (config) moving a "
        "random part of the arguments into 1-2 --config files gives identical output; (vector) util.parse_numbers on the full "
        "grid of start/step/end values against a Decimal model (end point included) and every date range within +-40 days of "
        "month/year/leap boundaries with steps 1, 7, 31 against calendar stepping (exhaustive over the grid); (reject) "
        "unknown flags, a flag without value, malformed vectors, unknown axis/aggregator, unreadable/invalid files, ranges "
        "with 1 or 3 values, non-positive -T, quantiles outside [0,1] must not succeed. Non-trivial: >=3 distinct options "
        "besides -m/-type and an output of >=2 rows; distinct by hash of (dataset dims, argv).")
ASSUMPTIONS = [
    "defaults the help text leaves to the implementation are never relied on: -x is always explicit, -b whenever -r is",
    "with a non-threshold -x exactly one event is given (averaging over several events is not documented)",
    "a flag without its value is only generated as the last argument; date ranges use positive steps",
    "reject classes must end in SystemExit(!=0) after an 'Error:' line (every listed class does on the pinned tree)",
]

METRICS = ["mae", "bias", "rmse", "corr", "obs", "fcst", "ets", "hit", "far", "threat", "n", "stderror"]
CONT = ["ets", "hit", "far", "threat", "n"]
AGG_OK = ["mae", "bias", "rmse", "obs", "fcst"]
AGGS = ["mean", "median", "min", "max", "std", "range", "count", "sum", "0.5", "0.9", "meanabs", "0.975", "0.125"]


# ------------------------------------------------------------------------------------------
# vector syntax
# ------------------------------------------------------------------------------------------
def spell(v):
    if float(v) == int(v):
        return "%d" % int(v)
    return repr(float(v))


def vector_items(tier):
    grid = [x / 4.0 for x in range(-8, 9)] + [0.1, 0.125, 0.333, 1.005, -0.05, 10, 100]
    steps = [0.1, 0.25, 0.5, 1, 2, -0.1, -0.25, -0.5, -1, -2]
    items = []
    block = []
    for a in grid:
        for b in grid:
            for s_ in steps:
                block.append([a, s_, b])
                if len(block) == 200:
                    items.append({"ranges": block})
                    block = []
    if block:
        items.append({"ranges": block})
    items.append({"lists": [[3], [3, 4, 5], [-1.5, 2, 0.25], [0.001, 1000000]]})
    return items


def model_range(a, s_, b):
    a, s_, b = Decimal(repr(float(a))), Decimal(repr(float(s_))), Decimal(repr(float(b)))
    out = []
    v = a
    k = 0
    while (s_ > 0 and v <= b) or (s_ < 0 and v >= b):
        out.append(float(v))
        k += 1
        v = a + k * s_
        if k > 100000:
            break
    return out


def check_vector(case, ctx):
    import verif.util
    for a, s_, b in case.get("ranges", []):
        exp = model_range(a, s_, b)
        for text in (["%s:%s:%s" % (spell(a), spell(s_), spell(b))] + (["%s:%s" % (spell(a), spell(b))] if s_ == 1 else [])):
            ctx.evals += 1
            try:
                got = [float(x) for x in verif.util.parse_numbers(text)]
            except (Exception, SystemExit) as e:
                ctx.fail("C13/vector/exception", {"ranges": [[a, s_, b]]}, "parse_numbers(%r): %s: %s" % (text, type(e).__name__, e))
                continue
            if len(exp) >= 2:
                ctx.nt(text)
            if len(got) != len(exp) or not all(cmpx.close(g, e, 1e-9) for g, e in zip(got, exp)):
                ctx.fail("C13/vector/range", {"ranges": [[a, s_, b]]}, "parse_numbers(%r) = %r, documented syntax gives %r" % (text, got[:8], exp[:8]))
        # a stepped range followed by a plain range and a list element: every element stands on its own
        text = "%s:%s:%s,10:12,5" % (spell(a), spell(s_), spell(b))
        try:
            got = [float(x) for x in verif.util.parse_numbers(text)]
            want = exp + [10.0, 11.0, 12.0, 5.0]
            if not (len(got) == len(want) and all(cmpx.close(g, e, 1e-9) for g, e in zip(got, want))):
                ctx.fail("C13/vector/sequence", {"ranges": [[a, s_, b]]}, "parse_numbers(%r) = %r, documented syntax gives %r" % (text, got[:12], want[:12]))
        except (Exception, SystemExit) as e:
            ctx.fail("C13/vector/exception", {"ranges": [[a, s_, b]]}, "parse_numbers(%r): %s" % (text, e))
        # combined with a list
        text = "7,%s:%s:%s,-3" % (spell(a), spell(s_), spell(b))
        try:
            got = [float(x) for x in verif.util.parse_numbers(text)]
            if got != [7.0] + [round(e, 7) for e in exp] + [-3.0] and not (len(got) == len(exp) + 2 and all(cmpx.close(g, e, 1e-9) for g, e in zip(got, [7.0] + exp + [-3.0]))):
                ctx.fail("C13/vector/mix", {"ranges": [[a, s_, b]]}, "parse_numbers(%r) = %r" % (text, got[:10]))
        except (Exception, SystemExit) as e:
            ctx.fail("C13/vector/exception", {"ranges": [[a, s_, b]]}, "parse_numbers(%r): %s" % (text, e))
    for lst in case.get("lists", []):
        text = ",".join(spell(v) for v in lst)
        got = [float(x) for x in verif.util.parse_numbers(text)]
        ctx.evals += 1
        if got != [float(v) for v in lst]:
            ctx.fail("C13/vector/list", {"lists": [lst]}, "parse_numbers(%r) = %r" % (text, got))
    if case.get("ranges"):
        ctx.sample({"example": "%s:%s:%s" % tuple(spell(x) for x in case["ranges"][0]), "expected": model_range(*case["ranges"][0])[:6]})


# ---- arbitrary strings over the vector alphabet ---------------------------------------------
def fuzz_strategy(tier):
    piece = st.one_of(st.integers(-20, 20).map(str), st.integers(-200, 200).map(lambda i: repr(i / 8.0)),
                      st.sampled_from(["", "-", ".", "1.", ".5", "-.5", "--1", "1.2.3", "0", "00", "-0", "1-2", "3.", "1e3"]))
    structured = st.lists(st.lists(piece, min_size=1, max_size=4).map(":".join), min_size=1, max_size=4).map(",".join)
    raw = st.text(alphabet="-0123456789.:,", min_size=0, max_size=12)
    return st.one_of(structured, structured, raw).map(lambda t: {"text": t})


def model_parse(text):
    """Documented syntax: comma-separated items; an item is a number, a:b or a:step:b (step != 0, end included).
    Returns the list, or None when the text is malformed."""
    if text == "" or any(ch not in "-0123456789.:," for ch in text):
        return None
    out = []
    for item in text.split(","):
        parts = item.split(":")
        if len(parts) > 3:
            return None
        nums = []
        for w in parts:
            try:
                if w == "" or w[-1:] in "eE":
                    return None
                nums.append(float(w))
            except ValueError:
                return None
        if len(nums) == 1:
            out.append(nums[0])
        else:
            a, b = nums[0], nums[-1]
            s_ = nums[1] if len(nums) == 3 else 1.0
            if s_ == 0:
                return None
            if abs((b - a) / s_) > 20000:
                raise TooBig()
            out += model_range(a, s_, b)
    return out


class TooBig(Exception):
    """a range of more than 20000 elements: not generated on purpose, skipped (harness cost only)"""


def check_fuzz(case, ctx):
    import verif.util
    from ..runner import repo_frame_key
    text = case["text"]
    try:
        exp = model_parse(text)
    except TooBig:
        ctx.label("skipped-huge-range")
        return
    ctx.evals += 0
    if exp is not None and len(exp) > 5000:
        return
    if exp is None:
        ctx.label("malformed")
    else:
        ctx.label("well-formed")
        if ":" in text and "," in text:
            ctx.nt(text)
            ctx.sample({"text": text, "expected": exp[:8]})
    try:
        got = [float(x) for x in verif.util.parse_numbers(text)]
    except SystemExit as e:
        if exp is not None:
            ctx.fail("C13/vector/fuzz/rejected-valid", case, "parse_numbers(%r) stopped with an error, the documented syntax gives %r" % (text, exp[:8]))
        return
    except Exception as e:
        ctx.fail("C13/reject/uncaught/malformed-vector", case, "parse_numbers(%r): uncaught %s: %s (%s)" % (text, type(e).__name__, e, repo_frame_key(e)))
        return
    if exp is None:
        ctx.fail("C13/reject/malformed-vector", case, "parse_numbers(%r) accepted a malformed vector and returned %r" % (text, got[:8]))
    elif len(got) != len(exp) or not all(cmpx.close(g, e, 1e-7) for g, e in zip(got, exp)):
        ctx.fail("C13/vector/fuzz", case, "parse_numbers(%r) = %r, documented syntax gives %r" % (text, got[:10], exp[:10]))


def date_items(tier):
    anchors = [20000101, 20000229, 20000301, 20010228, 20011231, 20120229, 20121231, 21000228, 19991231]
    items = []
    for an in anchors:
        base = model.date_to_unix(an) // 86400
        items.append({"base": base})
    return items


def check_dates(case, ctx):
    import verif.util
    base = case["base"]
    offs = range(-40, 41, 1 if case.get("dense") else 3)
    for o1 in offs:
        for o2 in offs:
            if o2 < o1:
                continue
            d1 = model.unix_to_date((base + o1) * 86400)
            d2 = model.unix_to_date((base + o2) * 86400)
            for step in (1, 7, 31):
                exp = []
                k = base + o1
                while k <= base + o2:
                    exp.append(model.unix_to_date(k * 86400))
                    k += step
                text = "%d:%d:%d" % (d1, step, d2) if step != 1 else "%d:%d" % (d1, d2)
                ctx.evals += 1
                try:
                    got = verif.util.parse_numbers(text, True)
                except (Exception, SystemExit) as e:
                    ctx.fail("C13/vector/date-exception", dict(case, d1=d1, d2=d2, step=step), "%s: %s" % (type(e).__name__, e))
                    continue
                if list(got) != exp:
                    ctx.fail("C13/vector/date-range", dict(case, d1=d1, d2=d2, step=step), "parse_dates(%r) = %r..., calendar stepping gives %r..." % (text, list(got)[:5], exp[:5]))
                    return
                if step == 7 and o1 % 9 == 0:
                    text2 = text + ",20300105:20300107"
                    got2 = list(verif.util.parse_numbers(text2, True))
                    if got2 != exp + [20300105, 20300106, 20300107]:
                        ctx.fail("C13/vector/date-sequence", dict(case, d1=d1, d2=d2, step=step), "parse_dates(%r) = ...%r" % (text2, got2[-5:]))
                        return
    ctx.nt(case)


# ------------------------------------------------------------------------------------------
# reject classes
# ------------------------------------------------------------------------------------------
REJECTS = [
    ("unknown-flag", ["-m", "mae", "-frobnicate", "3"]),
    ("unknown-flag-novalue", ["-m", "mae", "-frobnicate"]),
    ("flag-without-value", ["-m", "mae", "-x"]),
    ("flag-without-value", ["-m"]),
    ("flag-without-value", ["-m", "mae", "-r"]),
    ("malformed-vector", ["-m", "ets", "-r", "1,,2"]),
    ("malformed-vector", ["-m", "ets", "-r", "1:2:3:4"]),
    ("malformed-vector", ["-m", "ets", "-r", "a"]),
    ("malformed-vector", ["-m", "ets", "-r", "1:0:3"]),
    ("malformed-vector", ["-m", "ets", "-r", ":"]),
    ("malformed-vector", ["-m", "mae", "-l", "1;2"]),
    ("malformed-vector", ["-m", "mae", "-d", "2012x0101"]),
    ("unknown-axis", ["-m", "mae", "-x", "altitude"]),
    ("unknown-axis", ["-m", "mae", "-x", "Time "]),
    ("unknown-aggregator", ["-m", "mae", "-agg", "average"]),
    ("unknown-aggregator", ["-m", "mae", "-Tagg", "avg", "-T", "3"]),
    # ... whichever kind of output reads the aggregator (the diagrams that aggregate take it from the output object)
    ("unknown-aggregator", ["-m", "obsfcst", "-agg", "average"]),
    ("unknown-aggregator", ["-m", "scatter", "-x", "leadtime", "-agg", "nosuch"]),
    ("unknown-aggregator", ["-m", "qq", "-x", "location", "-agg", "avg"]),
    ("unknown-aggregator", ["-m", "obs", "-agg", "meen"]),
    # the documented names are the listed functions and a number between 0 and 1: the class names of the implementation are not among them
    ("unknown-aggregator", ["-m", "mae", "-agg", "quantile"]),
    ("unknown-aggregator", ["-m", "mae", "-agg", "aggregator"]),
    ("unknown-aggregator", ["-m", "mae", "-T", "2", "-Tagg", "quantile"]),
    ("range-arity", ["-m", "mae", "-latrange", "10"]),
    ("range-arity", ["-m", "mae", "-lonrange", "1,2,3"]),
    ("range-arity", ["-m", "mae", "-elevrange", "5"]),
    ("range-arity", ["-m", "mae", "-obsrange", "1,2,3"]),
    ("nonpositive-T", ["-m", "mae", "-T", "0"]),
    ("nonpositive-T", ["-m", "mae", "-T", "-3"]),
    ("quantile-out-of-range", ["-m", "quantilescore", "-q", "1.5"]),
    ("quantile-out-of-range", ["-m", "quantilescore", "-q", "-0.1"]),
    ("quantile-out-of-range", ["-m", "mae", "-agg", "1.5"]),
    # the range test must hold for every element of the list, wherever it stands, and whatever the metric reads
    ("quantile-out-of-range", ["-m", "mae", "-q", "1.5"]),
    ("quantile-out-of-range", ["-m", "mae", "-q", "-0.1"]),
    ("quantile-out-of-range", ["-m", "mae", "-q", "0.5,1.5,0.9"]),
    ("quantile-out-of-range", ["-m", "mae", "-q", "1.5,0.5"]),
    ("quantile-out-of-range", ["-m", "mae", "-q", "0.5,-0.1"]),
    ("quantile-out-of-range", ["-m", "mae", "-q", "0.1,-0.1,0.9"]),
    ("quantile-out-of-range", ["-m", "mae", "-q", "0.2:0.7:1.6"]),
    ("quantile-out-of-range", ["-q", "0.5,1.5,0.9", "-m", "mae"]),
    ("nonpositive-T", ["-T", "0", "-m", "mae"]),
    ("range-arity", ["-latrange", "10", "-m", "mae"]),
    ("range-arity", ["-m", "mae", "-latrange", "10,20,30"]),
    ("range-arity", ["-m", "mae", "-elevrange", "5,6,7"]),
    ("range-arity", ["-m", "mae", "-obsrange", "1"]),
    ("range-arity", ["-m", "mae", "-lonrange", "7"]),
    ("missing-config", ["-m", "mae", "--config"]),
    ("unknown-type", ["-m", "mae", "-type", "table"]),
    ("unknown-maptype", ["-m", "mae", "-type", "map", "-maptype", "moon"]),
]


VALUE_FLAGS = ["-m", "-x", "-agg", "-r", "-q", "-b", "-obs", "-fcst", "-c", "-C", "-T", "-Tagg", "-Tx", "-t", "-d", "-tod", "-o",
               "-l", "-lx", "-latrange", "-lonrange", "-elevrange", "-obsrange", "-leg", "-f", "-type"]


def reject_items(tier):
    items = [{"cls": c, "args": a, "file": "good"} for c, a in REJECTS]
    for fl in VALUE_FLAGS:
        items.append({"cls": "flag-without-value", "args": (["-m", "mae", fl] if fl != "-m" else ["-x", "leadtime", "-m"]), "file": "good"})
    items += [{"cls": "unreadable-file", "args": ["-m", "mae"], "file": "missing"},
              {"cls": "invalid-file", "args": ["-m", "mae"], "file": "garbage-text"},
              {"cls": "invalid-file", "args": ["-m", "mae"], "file": "header-only-nodata"},
              {"cls": "invalid-file", "args": ["-m", "mae"], "file": "ragged-row"},
              {"cls": "invalid-file", "args": ["-m", "mae"], "file": "wrong-netcdf"},
              {"cls": "unreadable-clim", "args": ["-m", "mae", "-c", "/nonexistent/clim.txt"], "file": "good"}]
    return items


def check_reject(case, ctx):
    from .. import drive, fixed, mat
    d = os.path.join(ctx.scratch, "rej")
    os.makedirs(d, exist_ok=True)
    good = os.path.join(d, "good.txt")
    if not os.path.exists(good):
        sp = fixed.get("det1")
        mat.write_text(sp["inputs"][0], sp, good)
    kind = case["file"]
    if kind == "good":
        path = good
    elif kind == "missing":
        path = os.path.join(d, "does_not_exist.txt")
    elif kind == "garbage-text":
        path = os.path.join(d, "garbage.txt")
        open(path, "w").write("hello world\nthis is not a verification file\n1 2 3\n")
    elif kind == "header-only-nodata":
        path = os.path.join(d, "hdr.txt")
        open(path, "w").write("date hour location lat lon\n20120101 0 1 2 3\n")
    elif kind == "ragged-row":
        path = os.path.join(d, "ragged.txt")
        open(path, "w").write("date hour leadtime location obs fcst\n20120101 0 0 1 2 3\n20120101 0 6 1 2\n")
    else:
        import netCDF4
        path = os.path.join(d, "wrong.nc")
        nc = netCDF4.Dataset(path, "w")
        nc.createDimension("x", 2)
        nc.createVariable("foo", "f4", ("x",))[:] = [1, 2]
        nc.close()
    r = drive.run([path] + case["args"])
    ctx.evals += 1
    ctx.nt((case["cls"], case["args"], case["file"]))
    ctx.label("reject=" + case["cls"])
    if r.ok or r.exit == 0:
        ctx.fail("C13/reject/" + case["cls"], case, "argv %r was accepted (ran to completion):\n%s" % (case["args"], r.stdout[-300:]))
    elif r.exc is not None:
        ctx.label("rejected-by-uncaught-exception/" + case["cls"])
        ctx.fail("C13/reject/uncaught/" + case["cls"], case, "argv %r ended in an uncaught %s instead of an error message:\n%s" % (case["args"], r.exc_key, r.tb[-400:]))
    elif not r.clean_error:
        ctx.fail("C13/reject/no-message/" + case["cls"], case, "non-zero exit without an Error: message")
    else:
        ctx.label("rejected-cleanly")
    ctx.sample({"class": case["cls"], "args": case["args"], "file": kind, "outcome": "exception %s" % r.exc_key if r.exc else "exit %r: %s" % (r.exit, (r.error_lines() or [""])[0][:80])})


def reject_gen_strategy(tier):
    """Generated invalid command lines: the offending element stands anywhere in its list and the offending option
    anywhere among valid ones."""
    fmt = lambda v: ("%d" % v) if float(v) == int(v) else repr(float(v))

    @st.composite
    def s(draw):
        cls = draw(st.sampled_from(["quantile-out-of-range", "quantile-out-of-range", "range-arity", "nonpositive-T", "agg-out-of-range"]))
        if cls == "quantile-out-of-range":
            good = draw(st.lists(st.sampled_from([0.0, 0.1, 0.25, 0.5, 0.9, 1.0]), min_size=0, max_size=3))
            bad = draw(st.sampled_from([1.5, -0.1, 1.001, -1.0, 2.0, 100.0, -0.001]))
            pos = draw(st.integers(0, len(good)))
            vals = good[:pos] + [bad] + good[pos:]
            bad_args = ["-q", ",".join(fmt(v) for v in vals)]
        elif cls == "range-arity":
            fl = draw(st.sampled_from(["-latrange", "-lonrange", "-elevrange", "-obsrange"]))
            k = draw(st.sampled_from([1, 3, 4]))
            vals = sorted(draw(st.lists(st.integers(-50, 50), min_size=k, max_size=k)))
            bad_args = [fl, ",".join(fmt(v) for v in vals)]
        elif cls == "nonpositive-T":
            bad_args = ["-T", draw(st.sampled_from(["0", "-1", "-3", "-12", "-240"]))]   # -T takes an integer: integer literals only
            if draw(st.booleans()):
                bad_args += ["-Tagg", draw(st.sampled_from(["mean", "sum", "max"]))]
        else:
            bad_args = ["-agg", draw(st.sampled_from(["1.5", "2", "1.0001", "10"]))]
        metric = draw(st.sampled_from(["mae", "bias", "corr", "rmse"]))
        valid = [["-m", metric]]
        for extra in draw(st.lists(st.sampled_from([["-x", "leadtime"], ["-x", "time"], ["-type", "csv"], ["-type", "text"], ["-leg", "A"], ["-b", "above"]]),
                                   max_size=2, unique_by=lambda e: e[0])):
            valid.append(extra)
        valid = list(draw(st.permutations(valid)))
        pos = draw(st.integers(0, len(valid)))
        args = [a for grp in valid[:pos] for a in grp] + bad_args + [a for grp in valid[pos:] for a in grp]
        if "-type" not in args:
            args += ["-type", "csv"]
        return {"cls": cls, "args": args, "file": "good"}
    return s()


# ------------------------------------------------------------------------------------------
# model of a command line
# ------------------------------------------------------------------------------------------
def render_vector(draw, values):
    """Render a list of numbers in a random equivalent spelling."""
    vals = list(values)
    if len(vals) >= 2:
        steps = set(round(b - a, 9) for a, b in zip(vals, vals[1:]))
        if len(steps) == 1:
            s_ = steps.pop()
            if s_ != 0:
                mode = draw(st.sampled_from(["list", "range"]))
                if mode == "range":
                    if s_ == 1 and draw(st.booleans()):
                        return "%s:%s" % (spell(vals[0]), spell(vals[-1]))
                    return "%s:%s:%s" % (spell(vals[0]), spell(s_), spell(vals[-1]))
    return ",".join(spell(v) for v in vals)


def cmd_strategy(tier):
    @st.composite
    def s(draw):
        spec = draw(gen.dataset(max_inputs=3, clim="maybe", flavor="det", core_max=3, extra_max=1, allow_drop=False,
                                ordered_dims=True, allow_all_missing=False))
        metric = draw(st.sampled_from(METRICS))
        axis = draw(st.sampled_from(model.DATA_AXES + (["threshold"] if metric in CONT else [])))
        groups = []   # list of [flag, value...] groups; files are kept apart
        cmd = {"metric": metric, "axis": axis}
        if metric in CONT:
            b = draw(st.sampled_from(model.BIN_TYPES))
            n = draw(st.integers(2, 4)) if axis == "threshold" else (2 if b in model.WITHIN_TYPES else 1)
            start = draw(st.integers(-8, 8)) / 2.0
            step = draw(st.sampled_from([0.5, 1.0, 2.5]))
            T = [start + k * step for k in range(max(n, 2 if b in model.WITHIN_TYPES else 1))]
            cmd["thresholds"], cmd["bin_type"] = T, b
            groups.append(["-r", render_vector(draw, T)])
            groups.append(["-b", b])
        if metric in AGG_OK and draw(st.booleans()):
            cmd["agg"] = draw(st.sampled_from(AGGS))
            groups.append(["-agg", cmd["agg"]])
        opts = {}
        times = sorted(spec["times"])
        ids = sorted(l["id"] for l in spec["locs"])
        for name in draw(st.lists(st.sampled_from(["times", "dates", "tods", "leadtimes", "locations", "locations_x", "lat_range", "elev_range", "obs_range"]),
                                  max_size=3, unique=True)):
            if name == "times":
                keep = [t for t in times if draw(st.booleans())] or times[:1]
                opts[name] = [float(t) for t in keep]
                groups.append(["-t", ",".join("%d" % t for t in keep)])
            elif name == "dates":
                ds_ = sorted(set(model.unix_to_date(t) for t in times))
                lo = draw(st.sampled_from(ds_))
                hi = model.add_days(lo, draw(st.integers(0, 40)))
                rng = []
                dd = lo
                while dd <= hi:
                    rng.append(dd)
                    dd = model.add_days(dd, 1)
                opts[name] = rng
                groups.append(["-d", "%d:%d" % (lo, hi)])
            elif name == "tods":
                hs = sorted(draw(st.lists(st.sampled_from([0, 6, 12, 18, 23]), min_size=1, max_size=3, unique=True)))
                opts[name] = hs
                groups.append(["-tod", render_vector(draw, hs)])
            elif name == "leadtimes":
                keep = [l for l in sorted(spec["leadtimes"]) if draw(st.booleans())] or sorted(spec["leadtimes"])[:1]
                opts[name] = keep
                groups.append(["-o", render_vector(draw, keep)])
            elif name == "locations":
                keep = [i for i in ids if draw(st.booleans())] or ids[:1]
                opts[name] = [float(i) for i in keep]
                groups.append(["-l", render_vector(draw, keep)])
            elif name == "locations_x":
                keep = [i for i in ids if draw(st.sampled_from([False, False, True]))]
                if keep:
                    opts[name] = [float(i) for i in keep]
                    groups.append(["-lx", render_vector(draw, keep)])
            elif name == "lat_range":
                lats = sorted(l["lat"] for l in spec["locs"])
                a, b_ = draw(st.sampled_from(lats)), draw(st.sampled_from(lats))
                opts[name] = [min(a, b_), max(a, b_)]
                groups.append(["-latrange", "%s,%s" % (spell(min(a, b_)), spell(max(a, b_)))])
            elif name == "elev_range":
                el = sorted(l["elev"] for l in spec["locs"])
                a, b_ = draw(st.sampled_from(el)), draw(st.sampled_from(el))
                opts[name] = [min(a, b_), max(a, b_)]
                groups.append(["-elevrange", "%s,%s" % (spell(min(a, b_)), spell(max(a, b_)))])
            elif name == "obs_range":
                a = draw(st.integers(-12, 4)) / 2.0
                b_ = a + draw(st.integers(0, 16)) / 2.0
                opts[name] = [a, b_]
                groups.append(["-obsrange", "%s,%s" % (spell(a), spell(b_))])
        cmd["opts"] = opts
        if spec.get("clim"):
            cmd["clim_flag"] = draw(st.sampled_from(["-c", "-C"]))
        if draw(st.sampled_from([False, False, True])) and not spec.get("clim"):
            tx = draw(st.sampled_from(["leadtime", "time"]))
            cmd["T"] = {"h": draw(st.sampled_from([1, 2, 6, 7, 24, 25, 100000])), "tx": tx, "agg": draw(st.sampled_from(["mean", "sum", "max", "min"]))}
            groups.append(["-T", str(cmd["T"]["h"])])
            groups.append(["-Tagg", cmd["T"]["agg"]])
            groups.append(["-Tx", tx])
        if spec["inputs"][0].get("other") and all(d.get("other") for d in spec["inputs"]) and not spec.get("clim") and draw(st.sampled_from([False, False, True])):
            nm = sorted(spec["inputs"][0]["other"].keys())[0]
            if all(nm in d["other"] for d in spec["inputs"]):
                cmd["fcst_field"] = nm
                groups.append(["-fcst", nm])
        if draw(st.booleans()):
            cmd["leg"] = ["L%d_x" % i for i in range(len(spec["inputs"]))]
            groups.append(["-leg", ",".join(cmd["leg"])])
        if draw(st.sampled_from([False, False, True])):
            cmd["acc"] = True
            groups.append(["-acc"])
        cmd["type"] = draw(st.sampled_from(["csv", "csv", "text"]))
        groups += [["-m", metric], ["-x", axis], ["-type", cmd["type"]]]
        cmd["groups"] = groups
        cmd["perm"] = list(draw(st.permutations(range(len(groups)))))
        cmd["file_pos"] = [draw(st.integers(0, len(groups))) for _ in spec["inputs"]]
        cmd["config_mask"] = [draw(st.sampled_from([0, 0, 1, 2])) for _ in groups]
        return {"spec": spec, "cmd": cmd, "kind": draw(st.sampled_from(["text", "netcdf"]))}
    return s()


def predict(spec, cmd):
    """Expected table (list of rows of floats, NaN allowed) from the documented semantics."""
    sp = spec
    if cmd.get("fcst_field"):
        sp = copy.deepcopy(spec)
        for d in sp["inputs"]:
            d["fcst"] = d["other"][cmd["fcst_field"]]
    if cmd.get("T"):
        sp = model.preaggregate_spec(sp, cmd["T"]["h"], cmd["T"]["tx"], cmd["T"]["agg"])
    opts = dict(cmd.get("opts") or {})
    if spec.get("clim"):
        opts["clim_type"] = "subtract" if cmd.get("clim_flag", "-c") == "-c" else "divide"
    ds = model.DS(sp, opts)
    if ds.empty:
        return None, ds
    metric, axis = cmd["metric"], cmd["axis"]
    n_in = len(spec["inputs"])
    agg = cmd.get("agg", "mean")
    rows = []
    if axis == "threshold":
        evs = model.events(cmd["bin_type"], cmd["thresholds"])
        keys = [("no", 0, ev) for ev in evs]
    else:
        ev = model.events(cmd["bin_type"], cmd["thresholds"])[0] if metric in CONT else None
        keys = [(axis, k, ev) for k in range(ds.n_slices(axis))]
    for ax, k, ev in keys:
        row = []
        for i in range(n_in):
            if metric in ("obs", "fcst"):
                cs = ds.cases([(metric,)], i, ax, k)
                vals = [c[0] for c in cs]
                v = model.aggregate(agg, vals) if vals else float("nan")
            elif metric in CONT:
                cs = ds.cases([("obs",), ("fcst",)], i, ax, k)
                if not cs:
                    v = float("nan")
                else:
                    b = cmd["bin_type"]
                    eo = [model.in_event(b, o, ev[0], ev[1]) for o, _ in cs]
                    ef = [model.in_event(b, f, ev[0], ev[1]) for _, f in cs]
                    tab = [sum(1 for p, q in zip(eo, ef) if q and p), sum(1 for p, q in zip(eo, ef) if q and not p),
                           sum(1 for p, q in zip(eo, ef) if (not q) and p), sum(1 for p, q in zip(eo, ef) if (not q) and (not p))]
                    v = model.cont_metric(metric, *tab)
                    v = float("nan") if v is None else v
            else:
                cs = ds.cases([("obs",), ("fcst",)], i, ax, k)
                v = model.det_metric(metric, cs, agg)
                v = float("nan") if v is None else v
            row.append(v)
        rows.append(row)
    if cmd.get("acc"):
        acc = [0.0] * n_in
        out = []
        for row in rows:
            acc = [a + (0.0 if (math.isnan(v) or math.isinf(v)) else v) for a, v in zip(acc, row)]
            out.append(list(acc))
        rows = out
    return rows, ds


def assemble(cmd, paths, cp, order=None, cfg_dir=None):
    groups = list(cmd["groups"])
    if cp:
        groups = groups + [[cmd.get("clim_flag", "-c"), cp]]
    idx = list(range(len(groups)))
    if order is not None:
        perm = [p for p in order if p < len(groups)] + [i for i in idx if i not in order]
        idx = perm
    argv = []
    inline = []
    cfg = {1: [], 2: []}
    for pos, gi in enumerate(idx):
        g = groups[gi]
        where = 0
        if cfg_dir is not None and gi < len(cmd["config_mask"]):
            where = cmd["config_mask"][gi]
        if where == 0:
            inline.append(g)
        else:
            cfg[where].append(g)
    # interleave files (relative order kept)
    flat = []
    fp = sorted(zip(cmd["file_pos"], range(len(paths)))) if order is not None else [(len(inline), i) for i in range(len(paths))]
    fp = sorted(fp, key=lambda t: (t[0], t[1]))
    # keep command-line order of files
    positions = sorted(p for p, _ in fp)
    files_at = {}
    for pos, fi in zip(positions, range(len(paths))):
        files_at.setdefault(min(pos, len(inline)), []).append(paths[fi])
    for k in range(len(inline) + 1):
        for f in files_at.get(k, []):
            flat.append(f)
        if k < len(inline):
            flat += inline[k]
    if cfg_dir is not None:
        for n in (1, 2):
            if cfg[n]:
                p = os.path.join(cfg_dir, "cfg%d.txt" % n)
                with open(p, "w") as f:
                    if n == 1:
                        f.write("  ".join(" ".join(g) for g in cfg[n]) + "\n")     # everything on one line
                    else:
                        for g in cfg[n]:
                            f.write(" ".join(g) + "\n")
                flat += ["--config", p]
    return flat


_counter = [0]


def parse_table(r, typ):
    from .. import drive
    from .c12 import parse_text
    lines = [ln for ln in r.lines() if ln.strip() != ""]
    return drive.parse_csv(lines) if typ == "csv" else parse_text(lines)


def check_cmd(case, ctx):
    from .. import drive, mat
    spec, cmd = case["spec"], case["cmd"]
    _counter[0] += 1
    d = os.path.join(ctx.scratch, "m%d" % _counter[0])
    os.makedirs(d)
    paths, cp = mat.write_files(spec, d, case.get("kind", "text"))
    n_in = len(spec["inputs"])
    argv0 = assemble(cmd, paths, cp)
    r0 = drive.run(argv0)
    ctx.evals += 1
    short = [os.path.basename(a) if os.sep in str(a) else a for a in argv0]
    n_opt = len([g for g in cmd["groups"] if g[0] not in ("-m", "-type", "-x")])
    ctx.label("nopts=%d" % min(n_opt, 6))
    for g in cmd["groups"]:
        ctx.label("flag=" + g[0])
    sub = dict(case)
    if r0.exc is not None:
        ctx.fail("C13/exc/" + r0.exc_key, sub, "argv: %s\n%s" % (" ".join(short), r0.tb))
        return
    exp, ds = predict(spec, cmd)
    if exp is None:
        ctx.label("empty-selection")
        if r0.exit in (None, 0):
            hdr, rows = parse_table(r0, cmd["type"])
            for row in rows:
                for cell in row[-n_in:]:
                    try:
                        if not math.isnan(float(cell)) and not ((cmd.get("acc") or cmd.get("agg") in ("count", "sum")) and float(cell) == 0):
                            ctx.fail("C13/model/empty-numeric", sub, "argv: %s: nothing selected but a score %r is printed" % (" ".join(short), cell))
                    except ValueError:
                        pass
        return
    if r0.exit not in (None, 0):
        ctx.fail("C13/model/unexpected-exit", sub, "argv: %s: %s" % (" ".join(short), " | ".join(r0.error_lines())))
        return
    hdr, rows = parse_table(r0, cmd["type"])
    digits = 6 if cmd["type"] == "csv" else 4
    if len(rows) != len(exp):
        ctx.fail("C13/model/rows", sub, "argv: %s: %d rows, model %d" % (" ".join(short), len(rows), len(exp)))
        return
    if n_opt >= 3 and len(rows) >= 2:
        ctx.nt((short[n_in:], ds.times, ds.leads, ds.ids, [dd["fcst"] for dd in spec["inputs"]]))
        ctx.label("nontrivial")
        ctx.sample({"argv": short, "stdout": [ln for ln in r0.lines() if ln.strip()][:4]})
    if cmd.get("leg"):
        want = [l.replace("_", " ") for l in cmd["leg"]]
        if hdr[-n_in:] != want:
            ctx.fail("C13/model/-leg", sub, "argv: %s: header %r, -leg gives %r" % (" ".join(short), hdr[-n_in:], want))
    uses_T = bool(cmd.get("T"))
    tol = 3e-5 if uses_T else 1e-9
    for k, (row, erow) in enumerate(zip(rows, exp)):
        for i in range(n_in):
            try:
                g = float(row[len(row) - n_in + i])
            except ValueError:
                ctx.fail("C13/model/unparsable", sub, "cell %r" % row[len(row) - n_in + i])
                continue
            e = erow[i]
            if math.isnan(e) or math.isinf(e):
                ok = math.isnan(g) or math.isinf(g) or (cmd.get("agg") in ("count", "sum") and g == 0)
            else:
                ok = cmpx.printed_ok(g, e, digits, rel=tol)
            if not ok:
                which = "-T" if uses_T else ("-agg" if cmd.get("agg") else ("-acc" if cmd.get("acc") else cmd["metric"]))
                ctx.fail("C13/model/" + which, sub, "argv: %s: row %d input %d prints %r, documented semantics give %r" % (" ".join(short), k, i, g, e))
                return
    # order: permuted option groups and interleaved files
    d2 = os.path.join(d, "cfg")
    os.makedirs(d2)
    r1 = drive.run(assemble(cmd, paths, cp, order=cmd["perm"]))
    ctx.evals += 1
    if r1.exc is not None or r1.lines() != r0.lines():
        ctx.fail("C13/order", sub, "permuting the options changed the output:\n%s\n--- %s\n%s" % ("\n".join(r0.lines()[:4]), r1.exc_key or "", "\n".join(r1.lines()[:4])))
    r2 = drive.run(assemble(cmd, paths, cp, cfg_dir=d2))
    ctx.evals += 1
    if r2.exc is not None or r2.lines() != r0.lines():
        ctx.fail("C13/config", sub, "moving arguments into --config files changed the output:\n%s\n--- %s\n%s" % ("\n".join(r0.lines()[:4]), r2.exc_key or "", "\n".join(r2.lines()[:4])))


def climboth_strategy(tier):
    """-c and -C on one command line: the result is that of ONE of the two options (file and operation together),
    never the file of one with the operation of the other."""
    from .. import gen

    @st.composite
    def s(draw):
        spec = draw(gen.dataset(max_inputs=2, min_inputs=2, clim=True, flavor="det", core_max=3, extra_max=0, allow_drop=False,
                                allow_obsless=False, allow_all_missing=False))
        return {"spec": spec, "metric": draw(st.sampled_from(["obs", "fcst", "mae", "bias"])), "axis": draw(st.sampled_from(["no", "leadtime", "location"])),
                "order": draw(st.sampled_from(["Cc", "cC"])), "position": draw(st.sampled_from(["before", "after", "split"]))}
    return s()


def check_climboth(case, ctx):
    from .. import drive, mat
    if "order" not in case:
        return check_cmd(case, ctx)
    spec = case["spec"]
    d = os.path.join(ctx.scratch, "cb%d_%d" % (os.getpid(), ctx.evals))
    os.makedirs(d, exist_ok=True)
    paths, cp = mat.write_files(spec, d, "text")
    f0, c2, c1 = paths[0], paths[1], cp
    tail = ["-m", case["metric"], "-x", case["axis"], "-type", "csv"]
    both = ["-C", c1, "-c", c2] if case["order"] == "Cc" else ["-c", c2, "-C", c1]
    if case["position"] == "before":
        argv = [f0] + both + tail
    elif case["position"] == "after":
        argv = [f0] + tail + both
    else:
        argv = [f0] + both[:2] + tail + both[2:]
    r = drive.run(argv)
    ra = drive.run([f0, "-c", c2] + tail)
    rb = drive.run([f0, "-C", c1] + tail)
    ctx.evals += 1
    ctx.label("clim-both/" + case["order"])
    for x in (r, ra, rb):
        if x.exc is not None:
            ctx.fail("C13/clim-both/exc/" + x.exc_key, case, x.tb[-500:])
            return
    if ra.exit not in (None, 0) or rb.exit not in (None, 0):
        ctx.label("clim-both/single-option-error")
        return
    if r.exit not in (None, 0):
        ctx.label("clim-both/rejected")       # refusing the contradictory pair with an error is a documented outcome
        if not r.clean_error:
            ctx.fail("C13/clim-both/no-message", case, "non-zero exit without an Error: message")
        return
    if ra.lines() != rb.lines():
        ctx.nt(("clim-both", case["order"], case["position"], case["metric"], case["axis"], spec["times"], [dd["fcst"] for dd in spec["inputs"]], spec["clim"]["fcst"]))
    if r.lines() != ra.lines() and r.lines() != rb.lines():
        ctx.fail("C13/clim-both", case, "%s gives\n%s\nwhich is neither -c alone\n%s\nnor -C alone\n%s"
                 % (" ".join(os.path.basename(a) if os.sep in a else a for a in argv), "\n".join(r.lines()[:4]), "\n".join(ra.lines()[:4]), "\n".join(rb.lines()[:4])))


# ---- -obs / -fcst naming other columns (both at once, swapped, ...) against files whose columns were moved physically ----
def fieldmap_strategy(tier):
    @st.composite
    def s(draw):
        spec = draw(gen.dataset(max_inputs=2, clim=False, flavor="det", core_max=3, extra_max=1, allow_obsless=False, other_pool=("raw",)))
        obs_src, fcst_src = draw(st.sampled_from([("fcst", "obs"), ("fcst", "obs"), ("fcst", "raw"), ("raw", "obs"), ("raw", None), (None, "raw"),
                                                  ("fcst", None), (None, "obs"), ("raw", "raw")]))
        metric = draw(st.sampled_from(["bias", "mae", "rmse", "corr", "obs", "fcst", "b", "c", "hit", "far", "diff"]))
        return {"spec": spec, "obs_src": obs_src, "fcst_src": fcst_src, "metric": metric,
                "axis": draw(st.sampled_from(["no", "time", "leadtime", "location"])),
                "threshold": draw(st.integers(-8, 8)) / 2.0, "kind": draw(st.sampled_from(["text", "netcdf"])),
                "obs_first": draw(st.booleans())}
    return s()


def check_fieldmap(case, ctx):
    from .. import drive, mat
    if "obs_src" not in case:
        return check_cmd(case, ctx)
    spec = case["spec"]
    if not all((d.get("other") or {}).get("raw") is not None for d in spec["inputs"]):
        # no third column in every file: exchange obs and fcst instead
        case = dict(case, obs_src="fcst" if case["obs_src"] else None, fcst_src="obs" if case["fcst_src"] else None)
    moved = copy.deepcopy(spec)
    for d0, d1 in zip(spec["inputs"], moved["inputs"]):
        col = {"obs": d0["obs"], "fcst": d0["fcst"], "raw": (d0.get("other") or {}).get("raw")}
        if case["obs_src"]:
            d1["obs"] = copy.deepcopy(col[case["obs_src"]])
        if case["fcst_src"]:
            d1["fcst"] = copy.deepcopy(col[case["fcst_src"]])
    base = os.path.join(ctx.scratch, "fm%d_%d" % (os.getpid(), ctx.evals))
    da, db = os.path.join(base, "a"), os.path.join(base, "b")
    os.makedirs(da)
    os.makedirs(db)
    pa, _ = mat.write_files(spec, da, case["kind"])
    pb, _ = mat.write_files(moved, db, case["kind"])
    flags = []
    if case["obs_src"]:
        flags.append(["-obs", case["obs_src"]])
    if case["fcst_src"]:
        flags.append(["-fcst", case["fcst_src"]])
    if not case["obs_first"]:
        flags.reverse()
    tail = ["-m", case["metric"], "-x", case["axis"], "-type", "csv"]
    if case["metric"] in ("b", "c", "hit", "far"):
        tail += ["-r", "%g" % case["threshold"], "-b", "above"]
    r1 = drive.run(pa + [a for g in flags for a in g] + tail)
    r2 = drive.run(pb + tail)
    ctx.evals += 1
    ctx.label("field-map/obs=%s,fcst=%s" % (case["obs_src"], case["fcst_src"]))
    for r in (r1, r2):
        if r.exc is not None:
            ctx.fail("C13/field-map/exc/" + r.exc_key, case, r.tb[-500:])
            return
    if r2.exit not in (None, 0):
        ctx.label("field-map/error-exit")
        return
    if r1.exit not in (None, 0):
        ctx.fail("C13/field-map/unexpected-exit", case, "%s %s: %s" % (flags, tail, "\n".join(r1.lines()[-2:])))
        return
    h1, rows1 = drive.parse_csv(r1.lines())
    h2, rows2 = drive.parse_csv(r2.lines())
    vals = [x for row in rows2 for x in row[-len(spec["inputs"]):]]
    if len(set(vals)) > 1 or (vals and vals[0] not in ("nan", "0")):
        ctx.nt(("field-map", case["obs_src"], case["fcst_src"], case["metric"], case["axis"], spec["times"], [d["fcst"] for d in spec["inputs"]]))
    if rows1 != rows2:
        ctx.fail("C13/field-map/" + case["metric"], case, "%s %s prints\n%s\nthe same files with the columns moved physically give\n%s"
                 % (" ".join(a for g in flags for a in g), " ".join(tail), "\n".join(r1.lines()[:5]), "\n".join(r2.lines()[:5])))


# ---- -agg / -acc on the obsfcst table (the diagrams that aggregate read the option from the output object) ------------
class _Rekey(object):
    """Forwards to the campaign context, reporting under this property's keys."""
    def __init__(self, ctx):
        self.__dict__["_ctx"] = ctx

    def __getattr__(self, name):
        return getattr(self._ctx, name)

    def __setattr__(self, name, value):
        setattr(self._ctx, name, value)

    def fail(self, key, case, msg):
        self._ctx.fail(key.replace("C12/obsfcst/", "C13/agg-acc/obsfcst/"), case, msg)


def aggacc_strategy(tier):
    from . import c12
    return c12.obsfcst_strategy(tier).filter(lambda c: c.get("agg") or c.get("acc"))


def check_aggacc(case, ctx):
    """-agg and -acc do what the help says on the obsfcst table too: every column is the -agg statistic of the slice's values
    (the mean without -agg), accumulated along the axis with -acc."""
    from . import c12
    if "with_q" not in case:
        return check_cmd(case, ctx)
    return c12.check_obsfcst(case, _Rekey(ctx))


def campaigns(tier):
    return [
        Enum("vector-grid", vector_items, check_vector, "24x24 start/end values x 10 steps in blocks of 200, three spellings each"),
        Enum("date-ranges", date_items, check_dates, "all date pairs (every 3rd day) within +-40 days of 9 boundary dates x steps 1,7,31"),
        Enum("reject", reject_items, check_reject, "the documented rejection classes"),
        Hyp("reject-gen", reject_gen_strategy, check_reject, quick=960, thorough=20000, budget_quick=40, budget_thorough=600),
        Hyp("vector-fuzz", fuzz_strategy, check_fuzz, quick=8000, thorough=400000, budget_quick=30, budget_thorough=600),
        Hyp("clim-both", climboth_strategy, check_climboth, quick=240, thorough=6000, budget_quick=30, budget_thorough=600),
        Hyp("commands", cmd_strategy, check_cmd, quick=2400, thorough=40000, budget_quick=60, budget_thorough=1800),
        Hyp("agg-acc-obsfcst", aggacc_strategy, check_aggacc, quick=240, thorough=6000, budget_quick=30, budget_thorough=600),
        Hyp("field-map", fieldmap_strategy, check_fieldmap, quick=320, thorough=8000, budget_quick=30, budget_thorough=600),
    ]
