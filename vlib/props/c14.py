"""C14 - Anomaly scores use the climatology at the same coordinates."""
import math
import os

from hypothesis import strategies as st

from .. import cmpx, dscheck, gen, model
from ..runner import Hyp

ID = "C14"
TITLE = "Anomaly scores use the climatology at the same coordinates"
RULE = ("Generated datasets of 1-3 scored inputs plus a climatology input with its own coverage, ordering and missing "
        "mask (zeros included for -C). Oracles: (values) get_scores for every request/axis/slice/input equals the model: "
        "obs-clim, fcst-clim (or quotients) at the valid cases, cases with missing climatology or non-finite quotient "
        "dropped for every input; (only-obs-fcst) threshold/quantile/pit/ensemble values in mixed requests are not "
        "altered; (extra-input) csv columns of `A B -c X -m mae|rmse|bias|stderror` equal the first columns of `A B X`; "
        "(field-override) the same equivalence with -fcst / -obs naming another column; (not-scored) num_inputs, names, legend, csv header never contain the climatology. Non-trivial: the climatology's "
        "missing mask differs from the scored inputs' on a common case and its values are not constant; distinct by hash.")
ASSUMPTIONS = [
    "with a climatology a request for Obs alone is judged in the only-if direction (see C01)",
    "values are dyadic so that differences are exact; quotients use the same IEEE division as the tool",
]


def strategy(tier):
    @st.composite
    def s(draw):
        spec = draw(gen.dataset(max_inputs=3, clim=True, flavor="mix", core_max=3, extra_max=1, max_members=2))
        case = {"spec": spec, "clim_type": draw(st.sampled_from(["subtract", "divide"])),
                "axes": draw(st.lists(st.sampled_from(gen.AXES_FOR_SCORES), min_size=2, max_size=3, unique=True))}
        if draw(st.sampled_from([False, False, True])):
            # -obsrange together with -c/-C: the range is a condition on the observation itself, not on its anomaly
            vals = sorted(set(v for d in spec["inputs"] if d.get("obs") for pl in d["obs"] for row in pl for v in row if v is not None)) or [0.0]
            a, b = draw(st.sampled_from(vals)), draw(st.sampled_from(vals))
            case["obs_range"] = [min(a, b), max(a, b)]
        return case
    return s()


def nontrivial(spec, ds):
    if ds.empty:
        return False
    cl = spec["clim"]
    vals = set(v for pl in cl["fcst"] for row in pl for v in row if v is not None)
    if len(vals) < 2:
        return False
    common = set(ds.coords())
    from .c01 import own_mask
    cm = own_mask(cl, spec, ("fcst",)) & common
    return any((own_mask(d, spec, ("fcst",)) & common) != cm for d in spec["inputs"])


def check_api(case, ctx):
    from .. import mat
    spec = case["spec"]
    if "axes" not in case:
        case = dict(case, axes=[case["axis"]] if case.get("axis") not in (None, "all") else ["no", "time", "location"])
    opts = {"clim_type": case["clim_type"]}
    if case.get("obs_range"):
        opts["obs_range"] = case["obs_range"]
        ctx.label("with-obsrange")
    ds = model.DS(spec, opts)
    ctx.label("clim_type=" + case["clim_type"])
    try:
        data = mat.make_data(spec, opts)
    except SystemExit:
        if not ds.empty:
            ctx.fail("C14/dims/unexpected-exit", case, "Data() exited")
        return
    if ds.empty:
        return
    if nontrivial(spec, ds):
        ctx.label("nontrivial")
        ctx.nt((spec["times"], spec["clim"]["fcst"], [d["fcst"] for d in spec["inputs"]], case["clim_type"], case["axes"]))
        ctx.sample({"clim_type": case["clim_type"], "clim_fcst": spec["clim"]["fcst"], "clim_times": [spec["times"][i] for i in spec["clim"]["ti"]],
                    "inputs_fcst": [d["fcst"] for d in spec["inputs"]]})
    if case["clim_type"] == "divide" and any(v == 0 for pl in spec["clim"]["fcst"] for row in pl for v in row if v is not None):
        ctx.label("clim_has_zero")
    menu = gen.common_menu(spec)
    dscheck.check_slices(ctx, ID, spec, ds, data, menu, case["axes"], extra=dict({"clim_type": case["clim_type"]}, **({"obs_range": case["obs_range"]} if case.get("obs_range") else {})))
    dscheck.check_all_axis(ctx, ID, spec, ds, menu[:4], lambda: mat.make_data(spec, opts), extra=dict({"clim_type": case["clim_type"]}, **({"obs_range": case["obs_range"]} if case.get("obs_range") else {})))
    # the same requests on an object that has already served whole-array requests (what the driver does
    # when it derives default thresholds): the climatology must not be applied twice
    import verif.axis
    data2 = mat.make_data(spec, opts)
    for i in range(len(spec["inputs"])):
        data2.get_scores(mat.vfield(("obs",)), i, verif.axis.All(), None)
        data2.get_scores(mat.vfield(("fcst",)), i, verif.axis.All(), None)
    dscheck.check_slices(ctx, ID + "/after-all-axis", spec, ds, data2, menu[:3], case["axes"][:2], extra=dict({"clim_type": case["clim_type"]}, **({"obs_range": case["obs_range"]} if case.get("obs_range") else {})))
    # not-scored
    n_in = len(spec["inputs"])
    names = [d["name"] for d in spec["inputs"]]
    if data.num_inputs != n_in:
        ctx.fail("C14/not-scored/num_inputs", case, "num_inputs=%r with %d scored inputs" % (data.num_inputs, n_in))
    for what, got in (("names", data.get_names()), ("full_names", data.get_full_names()), ("legend", data.get_legend())):
        if list(got) != names:
            ctx.fail("C14/not-scored/" + what, case, "%s = %r, scored inputs %r" % (what, got, names))


def files_strategy(tier):
    @st.composite
    def s(draw):
        spec = draw(gen.dataset(max_inputs=3, clim=True, flavor="det", core_max=3, extra_max=1))
        case = {"spec": spec, "metric": draw(st.sampled_from(["mae", "rmse", "bias", "stderror"])),
                # the climatology file may carry the same file name as one of the inputs (another directory)
                "clim_named_like": draw(st.sampled_from([None, None, 0, 1])),
                "axis": draw(st.sampled_from(["no", "time", "leadtime", "location", "month", "leadtimeday"])),
                "kind": draw(st.sampled_from(["text", "netcdf"])), "flag": draw(st.sampled_from(["-c", "-c", "-C"]))}
        if draw(st.sampled_from([False, False, True])):
            # -T pre-aggregation applies to the climatology series like to every other series
            case["flag"] = "-c"
            case["T"] = [draw(st.sampled_from([2, 7, 13, 25, 49])), draw(st.sampled_from(["leadtime", "leadtime", "time"])), draw(st.sampled_from(["mean", "sum", "max", "median"]))]
        return case
    return s()


def override_strategy(tier):
    """-c together with -fcst / -obs naming another column: the anomaly is taken of whatever fields are scored."""
    @st.composite
    def s(draw):
        spec = draw(gen.dataset(max_inputs=2, clim=True, flavor="det", core_max=3, extra_max=1, allow_obsless=False, clim_other=True,
                                other_pool=("raw",)))
        return {"spec": spec, "metric": draw(st.sampled_from(["mae", "rmse", "bias", "stderror"])),
                "axis": draw(st.sampled_from(["no", "time", "leadtime", "location"])),
                "kind": draw(st.sampled_from(["text", "netcdf"])), "which": draw(st.sampled_from(["-fcst", "-fcst", "-obs"]))}
    return s()


def check_override(case, ctx):
    from .. import drive, mat
    if "which" not in case:
        return check_files(case, ctx)
    spec = case["spec"]
    allin = spec["inputs"] + [spec["clim"]]
    if not all((d.get("other") or {}).get("raw") is not None for d in allin):
        ctx.label("override/no-common-column")
        return
    _counter[0] += 1
    d = os.path.join(ctx.scratch, "v%d" % _counter[0])
    os.makedirs(d)
    paths, cp = mat.write_files(spec, d, case["kind"])
    tail = [case["which"], "raw", "-m", case["metric"], "-x", case["axis"], "-type", "csv"]
    r1 = drive.run(paths + ["-c", cp] + tail)
    r2 = drive.run(paths + [cp] + tail)
    ctx.evals += 1
    ctx.label("override/" + case["which"])
    n_in = len(spec["inputs"])
    for r in (r1, r2):
        if r.exc is not None:
            ctx.fail("C14/override/exc/" + r.exc_key, case, r.tb)
            return
    if r1.exit not in (None, 0) or r2.exit not in (None, 0):
        ctx.label("override/error-exit")
        return
    h1, rows1 = drive.parse_csv(r1.lines())
    h2, rows2 = drive.parse_csv(r2.lines())
    if len(rows1) != len(rows2):
        ctx.fail("C14/override/rows", case, "%d rows with -c, %d with the climatology as an input" % (len(rows1), len(rows2)))
        return
    nd = len(h1) - n_in
    cl = spec["clim"]["other"]["raw"] if case["which"] == "-fcst" else spec["clim"]["fcst"]
    if len(set(v for pl in cl for row in pl for v in row if v is not None)) > 1:
        ctx.nt(("override", case["which"], spec["times"], cl, [dd["other"]["raw"] for dd in spec["inputs"]], case["metric"], case["axis"]))
    for k, (a, b) in enumerate(zip(rows1, rows2)):
        ga = [float(x) for x in a[nd:nd + n_in]]
        gb = [float(x) for x in b[nd:nd + n_in]]
        if not all(cmpx.close(x, y, 1e-5) for x, y in zip(ga, gb)):
            ctx.fail("C14/override/" + case["metric"], case, "%s raw, row %d: with -c %r, with the climatology as extra input %r" % (case["which"], k, ga, gb))
            return


_counter = [0]


def check_files(case, ctx):
    from .. import drive, mat
    spec = case["spec"]
    flag = case.get("flag", "-c")
    ds = model.DS(spec, {"clim_type": "subtract" if flag == "-c" else "divide"})
    ctx.label("files/" + flag)
    _counter[0] += 1
    d = os.path.join(ctx.scratch, "k%d" % _counter[0])
    os.makedirs(d)
    paths, cp = mat.write_files(spec, d, case["kind"])
    like = case.get("clim_named_like")
    same_name = False
    if like is not None and like < len(paths):
        os.makedirs(os.path.join(d, "climatology"))
        moved = os.path.join(d, "climatology", os.path.basename(paths[like]))
        os.rename(cp, moved)
        cp = moved
        same_name = True
        ctx.label("files/climatology-named-like-an-input")
    tail = ["-m", case["metric"], "-x", case["axis"], "-type", "csv"]
    T = case.get("T")
    if T:
        tail += ["-T", str(T[0]), "-Tx", T[1], "-Tagg", T[2]]
        ctx.label("files/with-T")
    r1 = drive.run(paths + [flag, cp] + tail)
    r2 = drive.run(paths + [cp] + tail)
    ctx.evals += 1
    n_in = len(spec["inputs"])
    if T:
        # only the equivalence with the climatology as an extra input is judged (the windowed model is C15's)
        for r in (r1, r2):
            if r.exc is not None:
                ctx.fail("C14/files/exc/" + r.exc_key, case, r.tb)
                return
        if r1.exit not in (None, 0) or r2.exit not in (None, 0):
            return
        h1, rows1 = drive.parse_csv(r1.lines())
        h2, rows2 = drive.parse_csv(r2.lines())
        nd = len(h1) - n_in
        if len(rows1) != len(rows2):
            ctx.fail("C14/extra-input/rows", case, "%d rows with -c, %d with the climatology as an input" % (len(rows1), len(rows2)))
            return
        ctx.nt(("files-T", T, spec["times"], spec["clim"]["fcst"], [dd["fcst"] for dd in spec["inputs"]], case["metric"], case["axis"]))
        for k, (a, b) in enumerate(zip(rows1, rows2)):
            ga = [float(x) for x in a[nd:nd + n_in]]
            gb = [float(x) for x in b[nd:nd + n_in]]
            if not all(cmpx.close(x, y, 1e-5) for x, y in zip(ga, gb)):
                ctx.fail("C14/extra-input/with-T/" + case["metric"], case, "-T %s -Tx %s -Tagg %s row %d: with -c %r, with the climatology as extra input %r" % (T[0], T[1], T[2], k, ga, gb))
                return
        return
    if nontrivial(spec, ds):
        ctx.nt(("files", spec["times"], spec["clim"]["fcst"], [dd["fcst"] for dd in spec["inputs"]], case["metric"], case["axis"]))
    for r in (r1, r2):
        if r.exc is not None:
            ctx.fail("C14/files/exc/" + r.exc_key, case, r.tb)
            return
    if ds.empty:
        if r1.exit in (None, 0):
            ctx.fail("C14/files/empty-no-error", case, "no common cases but -c run succeeded")
        return
    if r1.exit not in (None, 0) or r2.exit not in (None, 0):
        ctx.fail("C14/files/exit", case, " | ".join(r1.error_lines() + r2.error_lines()))
        return
    h1, rows1 = drive.parse_csv(r1.lines())
    h2, rows2 = drive.parse_csv(r2.lines())
    names = [os.path.basename(p) for p in paths]
    if h1[-n_in:] != names or (os.path.basename(cp) in h1 and not same_name) or len(h2) != len(h1) + 1:
        ctx.fail("C14/not-scored/header", case, "csv header with -c: %r" % h1)
    if flag == "-c" and len(rows1) != len(rows2):
        ctx.fail("C14/extra-input/rows", case, "%d rows with -c, %d with the climatology as an input" % (len(rows1), len(rows2)))
        return
    nd = len(h1) - n_in
    if flag != "-c":
        rows2 = rows1
    if len(rows1) != ds.n_slices(case["axis"]):
        ctx.fail("C14/files/rows", case, "%d rows, model %d slices" % (len(rows1), ds.n_slices(case["axis"])))
        return
    for k, (a, b) in enumerate(zip(rows1, rows2)):
        ga = [float(x) for x in a[nd:nd + n_in]]
        gb = [float(x) for x in b[nd:nd + n_in]]
        if flag == "-c" and not all(cmpx.close(x, y, 1e-5) for x, y in zip(ga, gb)):
            ctx.fail("C14/extra-input/" + case["metric"], case, "row %d: with -c %r, with the climatology as extra input %r" % (k, ga, gb))
        # and against the model
        for i in range(n_in):
            cs = ds.cases([("obs",), ("fcst",)], i, case["axis"], k)
            if not cs:
                e = float("nan")
            elif case["metric"] == "mae":
                e = math.fsum(abs(o - f) for o, f in cs) / len(cs)
            elif case["metric"] == "rmse":
                e = math.sqrt(math.fsum((o - f) ** 2 for o, f in cs) / len(cs))
            elif case["metric"] == "bias":
                e = math.fsum(f - o for o, f in cs) / len(cs)
            else:
                m = math.fsum(o - f for o, f in cs) / len(cs)
                e = math.sqrt(math.fsum((o - f - m) ** 2 for o, f in cs) / len(cs))
            if not cmpx.printed_ok(ga[i], e, 6, rel=2e-6):
                ctx.fail("C14/values-csv/" + case["metric"], case, "row %d input %d: %r, model %r" % (k, i, ga[i], e))


def campaigns(tier):
    return [
        Hyp("api", strategy, check_api, quick=1600, thorough=40000, budget_quick=50, budget_thorough=1200),
        Hyp("files", files_strategy, check_files, quick=640, thorough=16000, budget_quick=50, budget_thorough=1200),
        Hyp("field-override", override_strategy, check_override, quick=320, thorough=8000, budget_quick=40, budget_thorough=900),
    ]
