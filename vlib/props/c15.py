"""C15 - Aggregators and -T pre-aggregation compute the documented statistics."""
import math
import os

from hypothesis import strategies as st

from .. import cmpx, dscheck, gen, model
from ..runner import Hyp

ID = "C15"
TITLE = "Aggregators and -T pre-aggregation compute the documented statistics"
RULE = ("(agg) arrays of 1-4 dimensions (1-5 entries each) of dyadic values x every axis argument (None, 0..ndim-1) x 14 named "
        "aggregators + quantile levels {0,.1,.25,.5,.75,.9,1}: verif.aggregator.get(name)(array, axis) against pure-Python "
        "statistics on lists (population std/variance, linear-interpolation quantiles, count of non-NaN, last-first). "
        "(preagg) generated datasets with ascending irregular lead-time/time grids, window h shorter than the smallest gap, "
        "equal to a gap, longer than the series, -Tagg any aggregator, -Tx time|leadtime: the obs, fcst and ensemble-member "
        "values entering get_scores (and the ensemble-derived threshold probabilities and quantiles) equal the aggregate of "
        "the same series over the trailing window (x-h, x] (float32 tolerance), identically for obs and fcst, via the API "
        "and via `-T h -Tagg f -Tx axis -m mae -type csv`. Non-trivial: the window covers >=2 and fewer than all entries "
        "at some position; distinct by hash.")
ASSUMPTIONS = [
    "the -T window is defined by coordinate value: the API campaign stores times / lead times in any order (the csv campaign writes text files, which the reader sorts)",
    "a missing value inside a window makes every statistic but the count missing",
    "pre-aggregated values are float32 in the tool: tolerance 2e-6 relative",
]

NAMED = ["mean", "median", "min", "max", "std", "variance", "iqr", "range", "count", "sum", "meanabs", "absmean", "change", "abschange"]
LEVELS = ["0", "0.1", "0.25", "0.5", "0.75", "0.9", "1", "0.975", "0.025", "0.125", "0.333"]


def array_strategy(tier):
    @st.composite
    def s(draw):
        nd = draw(st.integers(1, 4))
        shape = [draw(st.integers(1, 5 if nd < 4 else 3)) for _ in range(nd)]
        n = 1
        for x in shape:
            n *= x
        vals = draw(st.lists(st.integers(-40, 40).map(lambda i: i / 4.0), min_size=n, max_size=n))
        with_nan = draw(st.sampled_from([False, False, False, True]))
        nanmask = draw(st.lists(st.sampled_from([False] * 5 + [True]), min_size=n, max_size=n)) if with_nan else [False] * n
        return {"shape": shape, "values": vals, "nan": nanmask, "axis": draw(st.one_of(st.none(), st.integers(0, nd - 1))),
                "agg": draw(st.sampled_from(NAMED + NAMED + LEVELS))}
    return s()


def _lanes(shape, flat, axis):
    """Yield (output index tuple, list of values along axis)."""
    import itertools
    if axis is None:
        yield (), list(flat)
        return
    strides = []
    step = 1
    for sdim in reversed(shape):
        strides.insert(0, step)
        step *= sdim
    others = [range(s) for i, s in enumerate(shape) if i != axis]
    for idx in itertools.product(*others):
        full = list(idx)
        full.insert(axis, 0)
        lane = []
        for k in range(shape[axis]):
            full[axis] = k
            lane.append(flat[sum(i * st_ for i, st_ in zip(full, strides))])
        yield idx, lane


def check_array(case, ctx):
    import numpy as np
    import verif.aggregator
    shape, axis, agg = case["shape"], case["axis"], case["agg"]
    flat = [float("nan") if m else v for v, m in zip(case["values"], case["nan"])]
    has_nan = any(case["nan"])
    if has_nan and agg != "count":
        # aggregators are applied to values without missing data everywhere in the tool except count
        flat = list(case["values"])
        has_nan = False
    a = np.array(flat, float).reshape(shape)
    ctx.label("agg=" + ("quantile" if agg[0].isdigit() else agg))
    ctx.label("ndim=%d" % len(shape))
    ctx.evals += 1
    if len(flat) >= 2 and len(set(case["values"])) > 1:
        ctx.nt((shape, case["values"], axis, agg, case["nan"] if has_nan else None))
        if len(flat) <= 8:
            ctx.sample(case)
    try:
        got = verif.aggregator.get(agg)(a, axis=axis)
    except (Exception, SystemExit) as e:
        ctx.fail("C15/agg/%s/exception" % agg, case, "%s: %s" % (type(e).__name__, e))
        return
    got = np.asarray(got, float)
    exp_shape = () if axis is None else tuple(s for i, s in enumerate(shape) if i != axis)
    if got.shape != exp_shape:
        ctx.fail("C15/agg/%s/shape" % agg, case, "result shape %r, expected %r" % (got.shape, exp_shape))
        return
    for idx, lane in _lanes(shape, flat, axis):
        vals = [v for v in lane if not (isinstance(v, float) and v != v)]
        ref = model.aggregate(agg, vals if agg == "count" else lane)
        g = float(got[idx]) if idx != () else float(got)
        if not cmpx.close(g, ref, 1e-9):
            key = "quantile" if agg[0].isdigit() else agg
            ctx.fail("C15/agg/" + key, case, "%s along axis %r at %r of %r = %r, reference %r" % (agg, axis, idx, lane, g, ref))
            return
    # validity of the quantile aggregator
    if agg in LEVELS and not has_nan:
        for idx, lane in _lanes(shape, flat, axis):
            g = float(got[idx]) if idx != () else float(got)
            if not (min(lane) - 1e-12 <= g <= max(lane) + 1e-12):
                ctx.fail("C15/agg/quantile-range", case, "quantile %s = %r outside [min, max] of %r" % (agg, g, lane))


# ---- pre-aggregation -----------------------------------------------------------------------
def preagg_strategy(tier):
    @st.composite
    def s(draw):
        # dimensions in any storage order: the window is defined by coordinate value (l-h, l]
        spec = draw(gen.dataset(max_inputs=2, clim=False, flavor=draw(st.sampled_from(["det", "det", "ens"])), core_max=4, extra_max=2,
                                allow_drop=False, ordered_dims=draw(st.booleans()), max_members=3, allow_all_missing=False, boundary_heavy=False))
        tx = draw(st.sampled_from(["leadtime", "leadtime", "time"]))
        if tx == "leadtime":
            grid = sorted(spec["leadtimes"])
            gaps = [b - a for a, b in zip(grid, grid[1:])] or [1.0]
        else:
            grid = sorted(spec["times"])
            gaps = [(b - a) / 3600.0 for a, b in zip(grid, grid[1:])] or [1.0]
        span = (grid[-1] - grid[0]) / (1.0 if tx == "leadtime" else 3600.0)
        cands = sorted(set(int(math.ceil(x)) for x in gaps + [g + 1 for g in gaps] + [span + 1, 1, 2, 24, 25] if x >= 1))
        h = draw(st.sampled_from(cands))
        agg = draw(st.sampled_from(["mean", "mean", "sum", "max", "min", "median", "range", "count", "change", "std", "0.5"]))
        # a selection along the aggregated axis (-o / -t): the window still covers the whole series stored in the file
        sel = None
        if draw(st.sampled_from([False, True])):
            sel = [x for x in grid if draw(st.booleans())] or grid[-1:]
        return {"spec": spec, "h": h, "tx": tx, "agg": agg, "select": sel,
                "axes": draw(st.lists(st.sampled_from(["no", "leadtime", "time", "location"]), min_size=1, max_size=2, unique=True))}
    return s()


def window_class(spec, h, tx):
    best = False
    for d in spec["inputs"]:
        if tx == "leadtime":
            g = [spec["leadtimes"][i] for i in d["li"]]
            sizes = [sum(1 for y in g if x - h < y <= x) for x in g]
        else:
            g = [spec["times"][i] for i in d["ti"]]
            sizes = [sum(1 for y in g if x - h * 3600 < y <= x) for x in g]
        if any(2 <= s for s in sizes) and any(s < len(g) for s in sizes):
            best = True
    return best


def check_preagg(case, ctx):
    import numpy as np
    import verif.aggregator
    import verif.axis
    import verif.data
    from .. import mat
    spec, h, tx, agg = case["spec"], case["h"], case["tx"], case["agg"]
    spec_agg = model.preaggregate_spec(spec, h, tx, agg)
    opts = {}
    if case.get("select"):
        opts = {("leadtimes" if tx == "leadtime" else "times"): list(case["select"])}
        ctx.label("selection-on-the-aggregated-axis")
    ds = model.DS(spec_agg, opts)
    if ds.empty:
        return
    ctx.label("Tx=" + tx)
    ctx.label("Tagg=" + agg)
    if window_class(spec, h, tx):
        ctx.label("nontrivial")
        ctx.nt((spec["leadtimes"], spec["times"], h, tx, agg, [d["fcst"] for d in spec["inputs"]]))
        ctx.sample({"h": h, "Tx": tx, "Tagg": agg, "leadtimes": [[spec["leadtimes"][i] for i in d["li"]] for d in spec["inputs"]],
                    "times": [[spec["times"][i] for i in d["ti"]] for d in spec["inputs"]], "fcst0": spec["inputs"][0]["fcst"]})
    ins, clim = mat.mem_inputs(spec)
    data = verif.data.Data(ins, dim_agg_length=h, dim_agg_axis=verif.axis.get(tx), dim_agg_method=verif.aggregator.get(agg), **mat.data_kwargs(opts))
    menu = [[("obs",), ("fcst",)], [("fcst",)], [("obs",)]]
    if spec["inputs"][0].get("ens") is not None and all(d.get("ens") is not None for d in spec["inputs"]):
        mem = min(d["members"] for d in spec["inputs"])
        menu.append([("ens", mem - 1)])
        menu.append([("obs",), ("thr", 0.625)])
        menu.append([("q", 0.5)])
    # float32 tolerance
    n_in = len(spec["inputs"])
    extra = {"h": h, "tx": tx, "agg": agg}
    for F in menu:
        vF = [mat.vfield(f) for f in F]
        for axis in case.get("axes") or ["no"]:
            vax = mat.vaxis(axis)
            for k in range(ds.n_slices(axis)):
                for i in range(n_in):
                    try:
                        got = data.get_scores(vF, i, vax, k)
                    except (Exception, SystemExit) as e:
                        from ..runner import repo_frame_key
                        ctx.fail("C15/preagg/exception/%s" % (repo_frame_key(e) or type(e).__name__), dict(extra, spec=spec, fields=F), "%s: %s" % (type(e).__name__, e))
                        return
                    got_t = cmpx.tuples_of(got)
                    exp = ds.cases(F, i, axis, k)
                    ctx.evals += 1
                    if F[0][0] == "q":
                        # ensemble-derived quantile of the pre-aggregated members: validity (within the range of the aggregated members)
                        ok = got_t is not None and len(got_t) == len(exp)
                        if ok:
                            for gt, et in zip(sorted(got_t), sorted(exp, key=lambda t: (min(t[0][1]) + max(t[0][1])))):
                                pass
                            los = sorted(min(t[0][1]) for t in exp)
                            his = sorted(max(t[0][1]) for t in exp)
                            gs = sorted(g[0] for g in got_t)
                            ok = all(lo - 2e-5 * max(1, abs(lo)) <= g for lo, g in zip(los, gs)) and all(g <= hi + 2e-5 * max(1, abs(hi)) for hi, g in zip(his, gs))
                        if not ok:
                            ctx.fail("C15/preagg/ens-quantile", dict(extra, spec=spec, fields=F, input=i, axis=axis, slice=k),
                                     "median of the ensemble under -T: got %r; pre-aggregated member ranges %r" % (got_t and sorted(got_t)[:6], [(min(t[0][1]), max(t[0][1])) for t in exp][:6]))
                        continue
                    if not cmpx.same_multiset(got_t, exp, 2e-6):
                        which = dscheck.fields_label(F)
                        ctx.fail("C15/preagg/" + which, dict(extra, spec=spec, fields=F, input=i, axis=axis, slice=k),
                                 "-T %d -Tagg %s -Tx %s: input %d axis %s slice %d: got %r, windowed aggregates %r" % (h, agg, tx, i, axis, k, got_t and sorted(got_t)[:6], sorted(exp)[:6]))


def csv_strategy(tier):
    base = preagg_strategy(tier).filter(lambda c: c["spec"]["inputs"][0].get("ens") is None)

    @st.composite
    def s(draw):
        c = draw(base)
        # -Tagg and -agg are separate options: without -Tagg the window statistic is the mean whatever -agg says,
        # and -agg only chooses how the slice's errors are combined
        return dict(c, kind="text", tagg_given=draw(st.sampled_from([True, True, False])),
                    score_agg=draw(st.sampled_from([None, None, "max", "median", "min", "sum", "std", "range"])))
    return s()


_counter = [0]


def check_csv(case, ctx):
    from .. import drive, mat
    spec, h, tx, agg = case["spec"], case["h"], case["tx"], case["agg"]
    tagg_given = case.get("tagg_given", True)
    score_agg = case.get("score_agg")
    if not tagg_given:
        agg = "mean"
    spec_agg = model.preaggregate_spec(spec, h, tx, agg)
    ds = model.DS(spec_agg)
    if ds.empty:
        return
    _counter[0] += 1
    d = os.path.join(ctx.scratch, "p%d" % _counter[0])
    os.makedirs(d)
    paths, _ = mat.write_files(spec, d, "netcdf" if _counter[0] % 3 == 0 else "text")
    axis = (case.get("axes") or ["no"])[0]
    extra = (["-Tagg", agg] if tagg_given else []) + (["-agg", score_agg] if score_agg else [])
    if _counter[0] % 2:
        extra = extra[2:] + extra[:2]
    r = drive.run(paths + ["-m", "mae", "-x", axis, "-type", "csv", "-T", str(h)] + extra + ["-Tx", tx])
    ctx.evals += 1
    ctx.label("csv/%s%s" % ("-Tagg given" if tagg_given else "no -Tagg", " with -agg" if score_agg else ""))
    if r.exc is not None:
        ctx.fail("C15/csv/exc/" + r.exc_key, case, r.tb)
        return
    if r.exit not in (None, 0):
        ctx.fail("C15/csv/exit", case, " | ".join(r.error_lines()))
        return
    hdr, rows = drive.parse_csv(r.lines())
    n_in = len(spec["inputs"])
    if len(rows) != ds.n_slices(axis):
        ctx.fail("C15/csv/rows", case, "%d rows, model %d" % (len(rows), ds.n_slices(axis)))
        return
    if window_class(spec, h, tx):
        ctx.nt(("csv", spec["leadtimes"], spec["times"], h, tx, agg, [dd["fcst"] for dd in spec["inputs"]], axis))
    for k, row in enumerate(rows):
        for i in range(n_in):
            cs = ds.cases([("obs",), ("fcst",)], i, axis, k)
            if score_agg:
                e = model.aggregate(score_agg, [abs(o - f) for o, f in cs]) if cs else float("nan")
                if e is None:
                    e = float("nan")
            else:
                e = math.fsum(abs(o - f) for o, f in cs) / len(cs) if cs else float("nan")
            g = float(row[len(row) - n_in + i])
            if score_agg in ("std", "range") and abs(e) < 1e-4:
                continue            # a spread of nearly equal float32 window values is rounding noise
            if not cmpx.printed_ok(g, e, 6, rel=1e-5):
                ctx.fail("C15/csv/mae", case, "-T %d %s -Tx %s row %d input %d: %r, model %r" % (h, " ".join(extra), tx, k, i, g, e))


def campaigns(tier):
    return [
        Hyp("aggregators", array_strategy, check_array, quick=6400, thorough=150000, budget_quick=40, budget_thorough=900),
        Hyp("preagg", preagg_strategy, check_preagg, quick=1600, thorough=40000, budget_quick=50, budget_thorough=1200),
        Hyp("preagg-csv", csv_strategy, check_csv, quick=480, thorough=12000, budget_quick=50, budget_thorough=1200),
    ]
