"""C16 - Diagrams draw the quantities their definitions prescribe."""
import math
import os
import statistics

from hypothesis import strategies as st

from .. import cmpx, gen, model
from ..runner import Hyp

ID = "C16"
TITLE = "Diagrams draw the quantities their definitions prescribe"
RULE = ("Generated datasets (deterministic / probabilistic / ensemble flavours, 1-3 inputs, text files) x diagram x its options "
        "(-r, -q, -b, -x, -simple) run through verif.driver.run with the Agg backend; the figure left behind is dumped to plain "
        "data (lines with label/x/y, bar rectangles, scatter offsets/sizes/colour arrays, texts) and compared with the "
        "diagram's defining statistics computed by the independent model from the common valid cases: one series per input in "
        "command-line order, matched by legend label. Exact coordinates for standard line/bar plots, maps, obsfcst, qq, sort, "
        "scatter, against, cond, freq, hist, marginal, reliability, invreliability, discrimination, roc, taylor, error, "
        "pithist, spreadskill, murphy, economicvalue, bsdecomp, igncontrib, timeseries, meteo, change, impact, autocorr/"
        "autocov; validity predicates where the code must choose (droc/performance thresholds, fss neighbourhoods, rank ties, "
        "quantile/confidence decorations). (partition) in every binned diagram the per-bin counts or percentages account for "
        "every valid case exactly once, with values generated exactly on bin edges (p = 0, p = 1, value = top edge). "
        "Non-trivial: >=2 inputs and >=2 populated x-positions/bins; distinct by hash of (diagram, options, data).")
ASSUMPTIONS = [
    "explicit -r/-q edges are passed wherever a diagram accepts them (default bin edges are implementation choices)",
    "time-like x coordinates are matplotlib date numbers with the default 1970 epoch (days since 1970-01-01)",
    "legend labels are the file names; decorations (ideal lines, confidence bands, rings, iso-lines) are not judged",
    "reliability-type curves are only judged in bins that meet the diagram's minimum count",
]

TOL = 1e-6
_counter = [0]


# ----------------------------------------------------------------------------------------------
def mean(xs):
    xs = list(xs)
    return math.fsum(xs) / len(xs) if xs else float("nan")


def pairs(ds, i, axis="no", k=0):
    return ds.cases([("obs",), ("fcst",)], i, axis, k)


def pcases(ds, i, t, axis="no", k=0):
    return ds.cases([("obs",), ("thr", t)], i, axis, k)


def eq_arr(got, exp, tol=TOL):
    if len(got) != len(exp):
        return False
    return all(cmpx.close(g, e, tol) for g, e in zip(got, exp))


def lines_with(ax, label):
    return [ln for ln in ax["lines"] if ln["label"] == label]


def data_axes(dump):
    return [a for a in dump["axes"] if not a["is_colorbar"]]


def datenum(t):
    return t / 86400.0


class Judge(object):
    def __init__(self, ctx, case, diagram, argv, pid="C16"):
        self.pid = pid
        self.ctx = ctx
        self.case = case
        self.diagram = diagram
        self.argv = argv

    def fail(self, series, msg):
        self.ctx.fail("%s/%s/%s" % (self.pid, self.diagram, series), self.case, "argv: %s: %s" % (" ".join(map(str, self.argv)), msg))

    def series(self, ax, label, ex, ey, name="curve", tol=TOL, sort=False, allow_extra_nan=False):
        """Exactly one line labelled `label` whose points equal (ex, ey)."""
        ls = lines_with(ax, label)
        if len(ls) != 1:
            self.fail(name + "/series-count", "%d lines labelled %r (labels: %r)" % (len(ls), label, [l["label"] for l in ax["lines"]][:12]))
            return False
        gx, gy = list(ls[0]["x"]), list(ls[0]["y"])
        if sort:
            order = sorted(range(len(gx)), key=lambda j: (gx[j] if gx[j] == gx[j] else float("inf"), gy[j] if gy[j] == gy[j] else float("inf")))
            gx, gy = [gx[j] for j in order], [gy[j] for j in order]
            order = sorted(range(len(ex)), key=lambda j: (ex[j] if ex[j] == ex[j] else float("inf"), ey[j] if ey[j] == ey[j] else float("inf")))
            ex, ey = [ex[j] for j in order], [ey[j] for j in order]
        if not (eq_arr(gx, ex, tol) and eq_arr(gy, ey, tol)):
            self.fail(name, "series %r drawn at x=%r y=%r; definition gives x=%r y=%r" % (label, [round(v, 6) if v == v else None for v in gx][:12], [round(v, 6) if v == v else None for v in gy][:12],
                                                                                 [round(v, 6) if v == v else None for v in ex][:12], [round(v, 6) if v == v else None for v in ey][:12]))
            return False
        return True

    def order(self, ax, labels, name="order"):
        """The first occurrences of the given labels appear in this order among the axes' lines."""
        pos = []
        alll = [l["label"] for l in ax["lines"]]
        for lab in labels:
            if lab not in alll:
                self.fail(name, "no series labelled %r (labels %r)" % (lab, alll[:12]))
                return False
            pos.append(alll.index(lab))
        if pos != sorted(pos):
            self.fail(name, "series are not in command-line order: %r" % alll[:12])
            return False
        return True


# ----------------------------------------------------------------------------------------------
# diagram table: name -> dict(flavor, args(case, spec) -> list or None, verify(J, dump, ds, spec, case, names))
# ----------------------------------------------------------------------------------------------
DIAGRAMS = {}


def diagram(name, flavor="det", min_inputs=1, max_inputs=3):
    def deco(cls):
        DIAGRAMS[name] = {"flavor": flavor, "cls": cls(), "min_inputs": min_inputs, "max_inputs": max_inputs}
        return cls
    return deco


def edges_arg(vals):
    return ",".join(("%d" % v) if float(v) == int(v) else repr(float(v)) for v in vals)


def value_edges(spec, n=4, field="fcst"):
    """Edges built from the data so that values fall exactly on edges."""
    vals = sorted(set(v for d in spec["inputs"] for pl in (d.get(field) or []) for row in pl for v in row if v is not None))
    if not vals:
        vals = [0.0, 1.0]
    lo, hi = vals[0], vals[-1]
    if lo == hi:
        return [lo - 1, lo, lo + 1]
    step = (hi - lo) / float(n)
    step = max(0.25, math.ceil(step * 4) / 4.0)
    e = [lo + k * step for k in range(n + 2)]
    return [x for x in e if x <= hi + step]


@diagram("line")
class Line(object):
    AXES = ["leadtime", "time", "location", "month", "leadtimeday", "lat", "timeofday", "week"]

    def args(self, case, spec):
        return ["-m", case["opt"]["metric"], "-x", case["opt"]["axis"]]

    def options(self, draw, spec):
        return {"metric": draw(st.sampled_from(["mae", "bias", "rmse"])), "axis": draw(st.sampled_from(self.AXES))}

    def verify(self, J, dump, ds, spec, case, names):
        ax = data_axes(dump)[0]
        axis = case["opt"]["axis"]
        sl = ds.slices(axis)
        xs = [float(b) for b, _ in sl]
        if axis in ("time", "month", "week"):
            xs = [datenum(x) for x in xs]
        J.order(ax, names)
        pop = 0
        for i, nm in enumerate(names):
            ys = []
            for k in range(len(sl)):
                v = model.det_metric(case["opt"]["metric"], pairs(ds, i, axis, k))
                ys.append(float("nan") if v is None else v)
            pop = max(pop, sum(1 for y in ys if y == y))
            J.series(ax, nm, xs, ys, "curve")
        return pop


@diagram("bar")
class Bar(object):
    def args(self, case, spec):
        return ["-m", case["opt"]["metric"], "-x", "no"]

    def options(self, draw, spec):
        return {"metric": draw(st.sampled_from(["mae", "bias", "rmse"]))}

    def verify(self, J, dump, ds, spec, case, names):
        ax = data_axes(dump)[0]
        bars = ax["bars"]
        if len(bars) != len(names):
            J.fail("bars/count", "%d bars for %d inputs" % (len(bars), len(names)))
            return 0
        for i, b in enumerate(bars):
            v = model.det_metric(case["opt"]["metric"], pairs(ds, i))
            v = float("nan") if v is None else v
            if not cmpx.close(b["h"], v, TOL):
                J.fail("bars/height", "bar %d has height %r, score of input %d is %r" % (i, b["h"], i, v))
        if [t["text"] for t in ax["xticklabels"]][:len(names)] != names:
            J.fail("bars/order", "bar labels %r, inputs %r" % ([t["text"] for t in ax["xticklabels"]], names))
        return len(names)


@diagram("map")
class Map(object):
    def args(self, case, spec):
        return ["-m", case["opt"]["metric"], "-type", "map"]

    def options(self, draw, spec):
        return {"metric": draw(st.sampled_from(["mae", "bias"]))}

    def verify(self, J, dump, ds, spec, case, names):
        axes = data_axes(dump)
        if len(axes) != len(names):
            J.fail("map/axes", "%d map panels for %d inputs" % (len(axes), len(names)))
            return 0
        pop = 0
        for i, ax in enumerate(axes):
            exp = []
            for k, sid in enumerate(ds.ids):
                v = model.det_metric(case["opt"]["metric"], pairs(ds, i, "location", k))
                if v is not None:
                    exp.append((ds.meta[sid]["lon"], ds.meta[sid]["lat"], v))
            sc = [s_ for s_ in ax["scatters"] if s_["array"] is not None]
            if len(sc) != 1:
                J.fail("map/scatter", "panel %d has %d coloured scatters" % (i, len(sc)))
                continue
            got = sorted((o[0], o[1], a) for o, a in zip(sc[0]["offsets"], sc[0]["array"]))
            if len(got) != len(exp) or not all(all(cmpx.close(g, e, TOL) for g, e in zip(gt, et)) for gt, et in zip(got, sorted(exp))):
                J.fail("map/points", "panel %d shows (lon,lat,score) %r; definition %r" % (i, got[:6], sorted(exp)[:6]))
            pop = max(pop, len(exp))
        return pop


@diagram("obsfcst")
class ObsFcst(object):
    def args(self, case, spec):
        return ["-m", "obsfcst", "-x", case["opt"]["axis"]]

    def options(self, draw, spec):
        return {"axis": draw(st.sampled_from(["leadtime", "time", "location", "month", "leadtimeday"]))}

    def verify(self, J, dump, ds, spec, case, names):
        ax = data_axes(dump)[0]
        axis = case["opt"]["axis"]
        sl = ds.slices(axis)
        xs = [float(b) for b, _ in sl]
        if axis in ("time", "month"):
            xs = [datenum(x) for x in xs]
        obs_y = [mean(o for o, f in pairs(ds, 0, axis, k)) for k in range(len(sl))]
        J.series(ax, "Observed", xs, obs_y, "obs")
        J.order(ax, ["Observed"] + names)
        pop = 0
        for i, nm in enumerate(names):
            ys = [mean(f for o, f in pairs(ds, i, axis, k)) for k in range(len(sl))]
            pop = max(pop, sum(1 for y in ys if y == y))
            J.series(ax, nm, xs, ys, "fcst")
        return pop


@diagram("obsfcst-q", flavor="prob")
class ObsFcstQ(object):
    """obsfcst with quantile lines: one line per input and quantile, labelled '<input> <level>%'."""

    def args(self, case, spec):
        qs = None
        for d in spec["inputs"]:
            s_ = set(d.get("quantiles") or [])
            qs = s_ if qs is None else qs & s_
        qs = sorted(qs or [])
        if len(qs) < 2:
            return None
        case["opt"]["q"] = [qs[0], qs[-1]]
        return ["-m", "obsfcst", "-x", case["opt"]["axis"], "-q", edges_arg([qs[0], qs[-1]])]

    def options(self, draw, spec):
        return {"axis": draw(st.sampled_from(["leadtime", "time", "location", "leadtimeday"]))}

    def verify(self, J, dump, ds, spec, case, names):
        ax = data_axes(dump)[0]
        axis = case["opt"]["axis"]
        sl = ds.slices(axis)
        xs = [float(b) for b, _ in sl]
        if axis == "time":
            xs = [datenum(x) for x in xs]
        pop = 0
        for i, nm in enumerate(names):
            ys = [mean(f for o, f in pairs(ds, i, axis, k)) for k in range(len(sl))]
            J.series(ax, nm, xs, ys, "fcst")
            for q in case["opt"]["q"]:
                ys = [mean(c[0] for c in ds.cases([("q", q), ("obs",)], i, axis, k)) for k in range(len(sl))]
                J.series(ax, "%s %g%%" % (nm, q * 100), xs, ys, "quantile")
                pop = max(pop, sum(1 for y in ys if y == y))
        return pop


@diagram("qq")
class QQ(object):
    def args(self, case, spec):
        return ["-m", "qq"]

    def options(self, draw, spec):
        return {}

    def verify(self, J, dump, ds, spec, case, names):
        ax = data_axes(dump)[0]
        J.order(ax, names)
        pop = 0
        for i, nm in enumerate(names):
            cs = pairs(ds, i)
            if not cs:
                continue
            J.series(ax, nm, sorted(o for o, f in cs), sorted(f for o, f in cs), "curve")
            pop = max(pop, len(cs))
        return pop


@diagram("qq-q", flavor="prob")
class QQQ(object):
    """qq with quantile lines, pooled or aggregated per slice of -x: one dashed line per input and quantile, labelled
    '<input> (<level>%)', the deterministic line '<input> (deterministic)'."""

    def args(self, case, spec):
        qs = None
        for d in spec["inputs"]:
            s_ = set(d.get("quantiles") or [])
            qs = s_ if qs is None else qs & s_
        qs = sorted(qs or [])
        if len(qs) < 2:
            return None
        case["opt"]["q"] = qs if not case["opt"].get("rev") else qs[::-1]
        a = ["-m", "qq", "-q", edges_arg(case["opt"]["q"])]
        if case["opt"]["axis"] != "no":
            a += ["-x", case["opt"]["axis"]]
        return a

    def options(self, draw, spec):
        return {"axis": draw(st.sampled_from(["no", "leadtime", "location", "time", "leadtime"])), "rev": draw(st.booleans())}

    def verify(self, J, dump, ds, spec, case, names):
        ax = data_axes(dump)[0]
        axis = case["opt"]["axis"]
        qs = case["opt"]["q"]
        F = [("obs",), ("fcst",)] + [("q", q) for q in qs]
        nan = float("nan")

        def srt(vals):
            good = sorted(v for v in vals if v == v)
            return good + [nan] * (len(vals) - len(good))
        pop = 0
        for i, nm in enumerate(names):
            if axis == "no":
                cs = ds.cases(F, i)
                if not cs:
                    continue
                cols = [[c[j] for c in cs] for j in range(len(F))]
            else:
                cols = [[] for _ in F]
                for k in range(ds.n_slices(axis)):
                    cs = ds.cases(F, i, axis, k)
                    for j in range(len(F)):
                        cols[j].append(mean(c[j] for c in cs) if cs else nan)
            xs = srt(cols[0])
            J.series(ax, nm + " (deterministic)", xs, srt(cols[1]), "deterministic")
            for j, q in enumerate(qs):
                J.series(ax, "%s (%g%%)" % (nm, q * 100), xs, srt(cols[2 + j]), "quantile")
            pop = max(pop, sum(1 for v in cols[0] if v == v))
        return pop


@diagram("sort")
class Sort(object):
    def args(self, case, spec):
        return ["-m", case["opt"]["field"], "-sort"]

    def options(self, draw, spec):
        return {"field": draw(st.sampled_from(["fcst", "obs"]))}

    def verify(self, J, dump, ds, spec, case, names):
        ax = data_axes(dump)[0]
        J.order(ax, names)
        pop = 0
        for i, nm in enumerate(names):
            vals = sorted(c[0] for c in ds.cases([(case["opt"]["field"],)], i))
            if not vals:
                continue
            n = len(vals)
            ys = [100.0 * j / (n - 1) if n > 1 else 0.0 for j in range(n)]
            J.series(ax, nm, vals, ys, "curve")
            pop = max(pop, n)
        return pop


@diagram("scatter")
class Scatter(object):
    def args(self, case, spec):
        return ["-m", "scatter", "-simple"]

    def options(self, draw, spec):
        return {}

    def verify(self, J, dump, ds, spec, case, names):
        ax = data_axes(dump)[0]
        J.order(ax, names)
        pop = 0
        for i, nm in enumerate(names):
            cs = pairs(ds, i)
            if not cs:
                continue
            J.series(ax, nm, [o for o, f in cs], [f for o, f in cs], "points", sort=True)
            pop = max(pop, len(cs))
        return pop


@diagram("cond")
class Cond(object):
    def args(self, case, spec):
        return ["-m", "cond", "-r", edges_arg(case["opt"]["edges"]), "-b", case["opt"]["bin"]]

    def options(self, draw, spec):
        return {"edges": value_edges(spec, draw(st.integers(2, 4))), "bin": draw(st.sampled_from(["within=", "within", "=within", "=within="]))}

    def verify(self, J, dump, ds, spec, case, names):
        ax = data_axes(dump)[0]
        b = case["opt"]["bin"]
        evs = model.events(b, case["opt"]["edges"])
        pop = 0
        for i, nm in enumerate(names):
            cs = pairs(ds, i)
            of_y, of_x, fo_x, fo_y = [], [], [], []
            for (t0, t1) in evs:
                sel = [(o, f) for o, f in cs if model.in_event(b, o, t0, t1)]
                of_y.append(mean(f for o, f in sel))
                of_x.append(statistics.median([o for o, f in sel]) if sel else float("nan"))
                sel2 = [(o, f) for o, f in cs if model.in_event(b, f, t0, t1)]
                fo_x.append(mean(o for o, f in sel2))
                fo_y.append(statistics.median([f for o, f in sel2]) if sel2 else float("nan"))
            pop = max(pop, sum(1 for v in of_y if v == v))
            # y = mean fcst given obs in bin; x must lie inside the bin (its exact position is the implementation's choice)
            ls = lines_with(ax, nm + " (F|O)")
            if len(ls) != 1:
                J.fail("F|O/series-count", "%d lines labelled %r" % (len(ls), nm + " (F|O)"))
            else:
                if not eq_arr(ls[0]["y"], of_y):
                    J.fail("F|O", "mean forecast given obs in bin drawn as %r, definition %r" % (ls[0]["y"], of_y))
                for x, (t0, t1), y in zip(ls[0]["x"], evs, of_y):
                    if y == y and not (x == x and model.in_event("=within=", x, t0, t1)):
                        J.fail("F|O/x-in-bin", "x position %r outside its bin (%r,%r)" % (x, t0, t1))
            ls = lines_with(ax, nm + " (O|F)")
            if len(ls) != 1:
                J.fail("O|F/series-count", "%d lines labelled %r" % (len(ls), nm + " (O|F)"))
            else:
                if not eq_arr(ls[0]["x"], fo_x):
                    J.fail("O|F", "mean obs given fcst in bin drawn as %r, definition %r" % (ls[0]["x"], fo_x))
                for y, (t0, t1), x in zip(ls[0]["y"], evs, fo_x):
                    if x == x and not (y == y and model.in_event("=within=", y, t0, t1)):
                        J.fail("O|F/y-in-bin", "y position %r outside its bin (%r,%r)" % (y, t0, t1))
        return pop


@diagram("freq")
class Freq(object):
    def args(self, case, spec):
        return ["-m", "freq", "-r", edges_arg(case["opt"]["edges"]), "-b", case["opt"]["bin"]]

    def options(self, draw, spec):
        return {"edges": value_edges(spec, draw(st.integers(2, 4))), "bin": draw(st.sampled_from(model.BIN_TYPES))}

    def verify(self, J, dump, ds, spec, case, names):
        ax = data_axes(dump)[0]
        b = case["opt"]["bin"]
        evs = model.events(b, case["opt"]["edges"])
        J.order(ax, names)
        pop = 0
        last = None
        for i, nm in enumerate(names):
            cs = pairs(ds, i)
            if not cs:
                continue
            ys = [sum(1 for o, f in cs if model.in_event(b, f, t0, t1)) / float(len(cs)) for t0, t1 in evs]
            last = [sum(1 for o, f in cs if model.in_event(b, o, t0, t1)) / float(len(cs)) for t0, t1 in evs]
            ls = lines_with(ax, nm)
            if len(ls) != 1:
                J.fail("fcst/series-count", "%d lines labelled %r" % (len(ls), nm))
                continue
            if not eq_arr(ls[0]["y"], ys):
                J.fail("fcst", "frequencies of input %d drawn as %r, definition %r" % (i, ls[0]["y"], ys))
            pop = max(pop, sum(1 for y in ys if y > 0))
            if b == "within=" and not cmpx.close(sum(ls[0]["y"]), sum(1 for o, f in cs if model.in_event("within=", f, evs[0][0], evs[-1][1])) / float(len(cs))):
                J.fail("partition", "frequencies of the consecutive within= bins add up to %r" % sum(ls[0]["y"]))
        if last is not None:
            ls = lines_with(ax, "Observed")
            if len(ls) != 1 or not eq_arr(ls[0]["y"], last):
                J.fail("obs", "observed frequencies drawn as %r, definition (last input's valid pairs) %r" % (ls and ls[0]["y"], last))
        return pop


@diagram("hist")
class Hist(object):
    def args(self, case, spec):
        return ["-m", case["opt"]["field"], "-hist", "-r", edges_arg(case["opt"]["edges"]), "-b", case["opt"]["bin"]]

    def options(self, draw, spec):
        return {"field": draw(st.sampled_from(["fcst", "obs"])), "edges": value_edges(spec, draw(st.integers(2, 4))),
                "bin": draw(st.sampled_from(["within=", "within", "=within", "=within="]))}

    def verify(self, J, dump, ds, spec, case, names):
        ax = data_axes(dump)[0]
        b = case["opt"]["bin"]
        evs = model.events(b, case["opt"]["edges"])
        pop = 0
        for i, nm in enumerate(names):
            vals = [c[0] for c in ds.cases([(case["opt"]["field"],)], i)]
            cnt = [sum(1 for v in vals if model.in_event(b, v, t0, t1)) for t0, t1 in evs]
            tot = sum(cnt)
            ys = [100.0 * c / tot if tot else float("nan") for c in cnt]
            ls = lines_with(ax, nm)
            if len(ls) != 1:
                J.fail("series-count", "%d lines labelled %r (labels %r)" % (len(ls), nm, [l["label"] for l in ax["lines"]]))
                continue
            if not eq_arr(ls[0]["y"], ys):
                J.fail("percent", "histogram of input %d drawn as %r, definition %r" % (i, ls[0]["y"], ys))
            if tot and not cmpx.close(sum(y for y in ls[0]["y"] if y == y), 100.0):
                J.fail("partition", "percentages add up to %r" % sum(ls[0]["y"]))
            pop = max(pop, sum(1 for c in cnt if c))
        return pop


@diagram("taylor")
class Taylor(object):
    def args(self, case, spec):
        return ["-m", "taylor"]

    def options(self, draw, spec):
        return {}

    def verify(self, J, dump, ds, spec, case, names):
        ax = data_axes(dump)[0]
        pop = 0
        so = None
        for i, nm in enumerate(names):
            cs = pairs(ds, i)
            r = model.pearson([o for o, f in cs], [f for o, f in cs]) if len(cs) >= 2 else None
            ls = lines_with(ax, nm)
            if len(ls) != 1:
                J.fail("series-count", "%d series labelled %r" % (len(ls), nm))
                continue
            if r is None:
                continue
            sf = model.aggregate("std", [f for o, f in cs])
            so = model.aggregate("std", [o for o, f in cs])
            ex, ey = sf * r, sf * math.sqrt(max(0.0, 1 - r * r))
            if not (eq_arr(ls[0]["x"], [ex], 1e-5) and eq_arr(ls[0]["y"], [ey], 1e-5)):
                J.fail("point", "input %d drawn at (%r,%r); (std_f*r, std_f*sqrt(1-r^2)) = (%r,%r)" % (i, ls[0]["x"], ls[0]["y"], ex, ey))
            pop += 1
        if so is not None:
            ls = lines_with(ax, "Observed")
            if len(ls) != 1 or not (eq_arr(ls[0]["x"], [so], 1e-5) and eq_arr(ls[0]["y"], [0.0], 1e-5)):
                J.fail("obs-point", "observation point %r, expected (%r, 0)" % (ls and (ls[0]["x"], ls[0]["y"]), so))
        return pop


@diagram("error")
class Error(object):
    def args(self, case, spec):
        return ["-m", "error"]

    def options(self, draw, spec):
        return {}

    def verify(self, J, dump, ds, spec, case, names):
        ax = data_axes(dump)[0]
        pop = 0
        for i, nm in enumerate(names):
            cs = pairs(ds, i)
            if not cs:
                continue
            se = mean(o - f for o, f in cs)
            crmse = math.sqrt(max(0.0, mean((o - f - se) ** 2 for o, f in cs)))
            ls = lines_with(ax, nm)
            if len(ls) != 1 or not (eq_arr(ls[0]["x"], [crmse], 1e-5) and eq_arr(ls[0]["y"], [se], 1e-6)):
                J.fail("point", "input %d drawn at %r; (CRMSE, mean(o-f)) = (%r,%r)" % (i, ls and (ls[0]["x"], ls[0]["y"]), crmse, se))
            pop += 1
        return pop


@diagram("change", max_inputs=2)
class Change(object):
    def args(self, case, spec):
        return ["-m", "change", "-r", edges_arg(case["opt"]["edges"])]

    def options(self, draw, spec):
        return {"edges": [-20.0, -2.0, -0.5, 0.0, 0.5, 2.0, 20.0]}

    def verify(self, J, dump, ds, spec, case, names):
        ax = data_axes(dump)[0]
        edges = case["opt"]["edges"]
        pop = 0
        for i, nm in enumerate(names):
            g = ds.grid([("obs",), ("fcst",)], i)
            ch, er = [], []
            for a in range(1, len(ds.times)):
                for l in ds.leads:
                    for s_ in ds.ids:
                        cur = g[(ds.times[a], l, s_)]
                        prev = g[(ds.times[a - 1], l, s_)]
                        if cur is not None and prev is not None:
                            ch.append(cur[0] - prev[0])
                            er.append(abs(cur[0] - cur[1]))
            xs, ys = [], []
            for lo, hi in zip(edges[:-1], edges[1:]):
                sel = [(c, e) for c, e in zip(ch, er) if lo < c <= hi]
                xs.append(mean(c for c, e in sel))
                ys.append(mean(e for c, e in sel))
            if len(ds.times) >= 2:
                J.series(ax, nm, xs, ys, "curve")
                pop = max(pop, sum(1 for y in ys if y == y))
        return pop


@diagram("timeseries", max_inputs=2)
class TimeSeries(object):
    def args(self, case, spec):
        return ["-m", "timeseries"]

    def options(self, draw, spec):
        return {}

    def verify(self, J, dump, ds, spec, case, names):
        ax = data_axes(dump)[0]
        pop = 0
        for i, nm in enumerate(names):
            g = ds.grid([("fcst",)], i)
            exp = []
            for t in ds.times:
                xs = [datenum(t) + l / 24.0 for l in ds.leads]
                ys = [mean(g[(t, l, s_)][0] for s_ in ds.ids if g[(t, l, s_)] is not None) for l in ds.leads]
                exp.append((xs, ys))
            # one forecast line per initialisation time, first labelled with the input's name
            cand = [ln for ln in ax["lines"] if ln["label"] in (nm, "") or ln["label"].startswith("_")]
            first = lines_with(ax, nm)
            if len(first) != 1:
                J.fail("fcst/series-count", "%d lines labelled %r" % (len(first), nm))
                continue
            for (xs, ys) in exp:
                hit = [ln for ln in ax["lines"] if eq_arr(ln["x"], xs, 1e-9) and eq_arr(ln["y"], ys)]
                if not hit:
                    J.fail("fcst/line", "no line for the forecast initialised at x=%r with values %r" % (xs[0], ys))
                    break
            pop = max(pop, len(exp))
        # observation line: mean over locations by valid time, first occurrence of each valid time
        g = ds.grid([("obs",)], 0)
        seen = {}
        for t in ds.times:
            for l in ds.leads:
                vt = datenum(t + l * 3600)
                if vt not in seen:
                    seen[vt] = mean(g[(t, l, s_)][0] for s_ in ds.ids if g[(t, l, s_)] is not None)
        xs = sorted(seen)
        J.series(ax, "obs", xs, [seen[x] for x in xs], "obs", tol=1e-6)
        return pop


@diagram("pithist", flavor="prob")
class PitHist(object):
    def args(self, case, spec):
        return ["-m", "pithist"]

    def options(self, draw, spec):
        return {}

    def verify(self, J, dump, ds, spec, case, names):
        axes = data_axes(dump)
        if len(axes) != len(names):
            J.fail("axes", "%d panels for %d inputs" % (len(axes), len(names)))
            return 0
        pop = 0
        for i, ax in enumerate(axes):
            pits = [c[0] for c in ds.cases([("pit",)], i)]
            if ax["title"] != names[i]:
                J.fail("order", "panel %d is titled %r, input %r" % (i, ax["title"], names[i]))
            counts, tot = model.pit_hist_fractions(pits, 10)
            if not tot:
                continue
            exp = [100.0 * c / tot for c in counts]
            bars = sorted(ax["bars"], key=lambda b: b["x"])
            if len(bars) != 10 or not eq_arr([b["h"] for b in bars], exp):
                J.fail("bars", "panel %d bar heights %r, %% of PIT values per bin %r" % (i, [round(b["h"], 4) for b in bars], exp))
            elif not cmpx.close(sum(b["h"] for b in bars), 100.0):
                J.fail("partition", "bar heights add up to %r%%" % sum(b["h"] for b in bars))
            pop = max(pop, sum(1 for c in counts if c))
        return pop


def prob_event(bt, cdf):
    return model.event_prob(bt, cdf)


def prob_threshold(spec):
    th = None
    for d in spec["inputs"]:
        s_ = set(d.get("thresholds") or [])
        th = s_ if th is None else th & s_
    return sorted(th or [])


@diagram("marginal", flavor="prob")
class Marginal(object):
    def args(self, case, spec):
        T = prob_threshold(spec)
        if not T:
            return None
        return ["-m", "marginal", "-r", edges_arg(T), "-b", case["opt"]["bin"]]

    def options(self, draw, spec):
        return {"bin": draw(st.sampled_from(["above", "below", "above=", "below="]))}

    def verify(self, J, dump, ds, spec, case, names):
        ax = data_axes(dump)[0]
        T = prob_threshold(spec)
        b = case["opt"]["bin"]
        J.order(ax, names)
        obs_line = None
        for i, nm in enumerate(names):
            ys, cl = [], []
            for t in T:
                g = ds.grid([("obs",), ("thr", t)], i)
                vals = [v for v in g.values() if v is not None]
                ys.append(mean(prob_event(b, p) for o, p in vals))
                cl.append(mean(1.0 if model.in_event(b, o, t) else 0.0 for o, p in vals))
            J.series(ax, nm, T, ys, "fcst")
            obs_line = cl
        if obs_line is not None:
            J.series(ax, "Observed", T, obs_line, "obs")
        return len(T)


REL_EDGES = [0.0, 0.25, 0.5, 0.75, 1.0]


@diagram("reliability", flavor="prob")
class Reliability(object):
    def args(self, case, spec):
        T = prob_threshold(spec)
        if not T:
            return None
        return ["-m", "reliability", "-r", edges_arg(T[:1]), "-b", case["opt"]["bin"], "-q", edges_arg(REL_EDGES)]

    def options(self, draw, spec):
        return {"bin": draw(st.sampled_from(["above", "below", "above=", "below="]))}

    def verify(self, J, dump, ds, spec, case, names):
        axes = data_axes(dump)
        main = [a for a in axes if a["xlabel"] == "Forecasted probability"]
        inset = [a for a in axes if a["title"] == "Number"]
        if not main:
            J.fail("axes", "no main axes")
            return 0
        ax = main[0]
        t = prob_threshold(spec)[0]
        b = case["opt"]["bin"]
        J.order(ax, names)
        pop = 0
        for i, nm in enumerate(names):
            cs = [(1 if model.in_event(b, o, t) else 0, prob_event(b, p)) for o, p in pcases(ds, i, t)]
            if not cs:
                continue
            xs, ys, ns = [], [], []
            for k, (lo, hi) in enumerate(zip(REL_EDGES[:-1], REL_EDGES[1:])):
                last = k == len(REL_EDGES) - 2
                sel = [(o, p) for o, p in cs if lo <= p < hi or (last and p == hi)]
                ns.append(len(sel))
                xs.append(mean(p for o, p in sel) if sel else 0.0)
                ys.append(mean(o for o, p in sel) if len(sel) >= 5 else float("nan"))
            J.series(ax, nm, xs, ys, "curve")
            pop = max(pop, sum(1 for y in ys if y == y))
            if sum(ns) != len(cs):
                pass
            # partition: the counts shown in the inset account for every valid case
            if inset and max(ns) > 1:
                cand = [ln for ln in inset[0]["lines"] if eq_arr(ln["x"], xs)]
                if not cand:
                    J.fail("partition/inset", "no count line for input %d at x=%r" % (i, xs))
                elif not cmpx.close(sum(cand[0]["y"]), len(cs)):
                    J.fail("partition", "per-bin counts %r add up to %r, valid cases %d (probabilities %r)" % (cand[0]["y"], sum(cand[0]["y"]), len(cs), sorted(set(p for o, p in cs))))
        return pop


@diagram("discrimination", flavor="prob")
class Discrimination(object):
    def args(self, case, spec):
        T = prob_threshold(spec)
        if not T:
            return None
        return ["-m", "discrimination", "-r", edges_arg(T[:1]), "-b", case["opt"]["bin"], "-q", edges_arg(REL_EDGES)]

    def options(self, draw, spec):
        return {"bin": draw(st.sampled_from(["above", "below", "above=", "below="]))}

    def verify(self, J, dump, ds, spec, case, names):
        ax = data_axes(dump)[0]
        t = prob_threshold(spec)[0]
        b = case["opt"]["bin"]
        nb = len(REL_EDGES) - 1
        bars = ax["bars"]
        if len(bars) != 2 * nb * len(names):
            J.fail("bars/count", "%d bars, expected %d" % (len(bars), 2 * nb * len(names)))
            return 0
        pop = 0
        for i, nm in enumerate(names):
            cs = [(1 if model.in_event(b, o, t) else 0, prob_event(b, p)) for o, p in pcases(ds, i, t)]
            for cls, off in ((0, 0), (1, nb)):
                sel = [p for o, p in cs if o == cls]
                grp = bars[i * 2 * nb + off: i * 2 * nb + off + nb]
                exp = []
                for k, (lo, hi) in enumerate(zip(REL_EDGES[:-1], REL_EDGES[1:])):
                    last = k == nb - 1
                    exp.append(100.0 * sum(1 for p in sel if lo <= p < hi or (last and p == hi)) / len(sel) if sel else float("nan"))
                got = [g["h"] for g in grp]
                if not eq_arr(got, exp):
                    J.fail("bars" if not (sel and any(p == 1.0 for p in sel)) else "partition", "input %d, event %s: bar heights %r, %% of probabilities per bin %r" % (i, "observed" if cls else "not observed", got, exp))
                elif sel and not cmpx.close(sum(got), 100.0):
                    J.fail("partition", "bars add up to %r%%" % sum(got))
                pop = max(pop, sum(1 for e in exp if e == e and e > 0))
        return pop


@diagram("roc", flavor="prob")
class Roc(object):
    LEVELS = [0.0, 0.25, 0.5, 0.75, 1.0]

    def args(self, case, spec):
        T = prob_threshold(spec)
        if not T:
            return None
        return ["-m", "roc", "-r", edges_arg(T[:1]), "-b", case["opt"]["bin"], "-q", edges_arg(self.LEVELS)]

    def options(self, draw, spec):
        return {"bin": draw(st.sampled_from(["above", "below", "above=", "below="]))}

    def verify(self, J, dump, ds, spec, case, names):
        ax = data_axes(dump)[0]
        t = prob_threshold(spec)[0]
        b = case["opt"]["bin"]
        J.order(ax, names)
        pop = 0
        for i, nm in enumerate(names):
            cs = [(1 if model.in_event(b, o, t) else 0, prob_event(b, p)) for o, p in pcases(ds, i, t)]
            xs, ys = [1.0], [1.0]
            for lev in self.LEVELS:
                a = sum(1 for o, p in cs if p >= lev and o)
                bb = sum(1 for o, p in cs if p >= lev and not o)
                c = sum(1 for o, p in cs if p < lev and o)
                d = sum(1 for o, p in cs if p < lev and not o)
                if a + c > 0 and bb + d > 0:
                    ys.append(a / float(a + c))
                    xs.append(bb / float(bb + d))
                else:
                    ys.append(float("nan"))
                    xs.append(float("nan"))
            xs.append(0.0)
            ys.append(0.0)
            J.series(ax, nm, xs, ys, "curve")
            pop = max(pop, len(set(zip(xs, ys))))
        return pop


@diagram("murphy", flavor="prob")
class Murphy(object):
    def args(self, case, spec):
        T = prob_threshold(spec)
        if not T:
            return None
        return ["-m", "murphy", "-r", edges_arg(T[:1]), "-b", case["opt"]["bin"]]

    def options(self, draw, spec):
        return {"bin": draw(st.sampled_from(["above", "below", "above=", "below="]))}

    def verify(self, J, dump, ds, spec, case, names):
        ax = data_axes(dump)[0]
        t = prob_threshold(spec)[0]
        b = case["opt"]["bin"]
        thetas = [k / 20.0 for k in range(21)]
        J.order(ax, names)
        for i, nm in enumerate(names):
            cs = [(1 if model.in_event(b, o, t) else 0, prob_event(b, p)) for o, p in pcases(ds, i, t)]
            if not cs:
                continue
            ys = []
            n = float(len(cs))
            for th in thetas:
                v = 2 * th * sum(1 for o, p in cs if p > th and not o) / n + 2 * (1 - th) * sum(1 for o, p in cs if p < th and o) / n + 2 * th * (1 - th) * sum(1 for o, p in cs if p == th) / n
                ys.append(v)
            J.series(ax, nm, thetas, ys, "curve", tol=2e-6)
        return 21


@diagram("economicvalue", flavor="prob")
class EconomicValue(object):
    def args(self, case, spec):
        T = prob_threshold(spec)
        if not T:
            return None
        return ["-m", "economicvalue", "-r", edges_arg(T[:1]), "-b", case["opt"]["bin"]]

    def options(self, draw, spec):
        return {"bin": draw(st.sampled_from(["above", "below", "above=", "below="]))}

    def verify(self, J, dump, ds, spec, case, names):
        ax = data_axes(dump)[0]
        t = prob_threshold(spec)[0]
        b = case["opt"]["bin"]
        ratios = [(k / 20.0) ** 3 for k in range(21)]
        J.order(ax, names)
        for i, nm in enumerate(names):
            cs = [(1 if model.in_event(b, o, t) else 0, prob_event(b, p)) for o, p in pcases(ds, i, t)]
            if not cs:
                continue
            n = float(len(cs))
            clim = sum(o for o, p in cs) / n
            ys = []
            for cl in ratios:
                total = (cl * sum(1 for o, p in cs if p >= cl) + sum(1 for o, p in cs if p < cl and o)) / n
                clim_cost = min(clim, cl)
                perfect = clim * cl
                ys.append((clim_cost - total) / (clim_cost - perfect) if clim_cost != perfect else 0.0)
            J.series(ax, nm, ratios, ys, "curve")
        return 21


@diagram("bsdecomp", flavor="prob")
class BsDecomp(object):
    def args(self, case, spec):
        T = prob_threshold(spec)
        if not T:
            return None
        return ["-m", "bsdecomp", "-r", edges_arg(T[:1]), "-b", case["opt"]["bin"]]

    def options(self, draw, spec):
        return {"bin": draw(st.sampled_from(["above", "below", "above=", "below="]))}

    def verify(self, J, dump, ds, spec, case, names):
        ax = data_axes(dump)[0]
        t = prob_threshold(spec)[0]
        b = case["opt"]["bin"]
        pop = 0
        for i, nm in enumerate(names):
            cs = [(1 if model.in_event(b, o, t) else 0, prob_event(b, p)) for o, p in pcases(ds, i, t)]
            if not cs or any(model.near_decimal_edge(p) or p < 0 for o, p in cs):
                continue
            terms = model.brier_terms([p for o, p in cs], [o for o, p in cs])
            J.series(ax, nm, [terms["bsrel"]], [terms["bsres"]], "point")
            pop += 1
        return pop


@diagram("igncontrib", flavor="prob")
class IgnContrib(object):
    def args(self, case, spec):
        T = prob_threshold(spec)
        if not T:
            return None
        return ["-m", "igncontrib", "-r", edges_arg(T[:1]), "-b", case["opt"]["bin"]]

    def options(self, draw, spec):
        return {"bin": draw(st.sampled_from(["above", "below", "above=", "below="]))}

    def verify(self, J, dump, ds, spec, case, names):
        axes = data_axes(dump)
        if len(axes) < 2:
            J.fail("axes", "%d axes" % len(axes))
            return 0
        top, bottom = axes[0], axes[1]
        t = prob_threshold(spec)[0]
        b = case["opt"]["bin"]
        edges = [k / 11.0 for k in range(12)]
        pop = 0
        for i, nm in enumerate(names):
            cs = [(1 if model.in_event(b, o, t) else 0, prob_event(b, p)) for o, p in pcases(ds, i, t)]
            if not cs:
                continue
            ns = []
            for k in range(11):
                last = k == 10
                ns.append(sum(1 for o, p in cs if edges[k] <= p < edges[k + 1] or (last and p >= edges[k])))
            cnt_lines = [ln for ln in bottom["lines"]]
            if i < len(cnt_lines):
                got = cnt_lines[i]["y"]
                if not cmpx.close(sum(got), len(cs)):
                    J.fail("partition", "per-bin counts %r add up to %r, valid cases %d (probabilities %r)" % (got, sum(got), len(cs), sorted(set(p for o, p in cs))))
                elif not eq_arr(got, [float(x) for x in ns]):
                    J.fail("counts", "per-bin counts %r, definition %r" % (got, ns))
            pop = max(pop, sum(1 for x in ns if x))
        return pop


@diagram("spreadskill", flavor="prob")
class SpreadSkill(object):
    def args(self, case, spec):
        qs = None
        for d in spec["inputs"]:
            s_ = set(d.get("quantiles") or [])
            qs = s_ if qs is None else qs & s_
        qs = sorted(qs or [])
        if len(qs) < 2:
            return None
        case["opt"]["q"] = [qs[0], qs[-1]]
        order = case["opt"].get("order", 0)
        given = [qs[0], qs[-1]] if order == 0 else ([qs[-1], qs[0]] if order == 1 or len(qs) < 3 else [qs[1], qs[0], qs[-1]])
        return ["-m", "spreadskill", "-q", edges_arg(given), "-r", edges_arg(case["opt"]["edges"])]

    def options(self, draw, spec):
        # the lower and upper quantile are the smallest and largest level given, in whatever order
        return {"edges": [0.0, 0.5, 1.0, 2.0, 4.0, 8.0, 40.0], "order": draw(st.sampled_from([0, 1, 2]))}

    def verify(self, J, dump, ds, spec, case, names):
        ax = data_axes(dump)[0]
        q0, q1 = case["opt"]["q"]
        edges = case["opt"]["edges"]
        J.order(ax, names)
        pop = 0
        for i, nm in enumerate(names):
            cs = ds.cases([("obs",), ("fcst",), ("q", q0), ("q", q1)], i)
            xs, ys = [float("nan")], [float("nan")]
            for lo, hi in zip(edges[:-1], edges[1:]):
                sel = [(o, f, b_ - a) for o, f, a, b_ in cs if lo < (b_ - a) <= hi]
                xs.append(mean(s_ for o, f, s_ in sel))
                ys.append(math.sqrt(mean((o - f) ** 2 for o, f, s_ in sel)) if sel else float("nan"))
            J.series(ax, nm, xs, ys, "curve")
            pop = max(pop, sum(1 for y in ys if y == y))
        return pop


@diagram("against", min_inputs=2, max_inputs=2)
class Against(object):
    def args(self, case, spec):
        return ["-m", "against"]

    def options(self, draw, spec):
        return {}

    def verify(self, J, dump, ds, spec, case, names):
        ax = data_axes(dump)[0]
        g0 = ds.grid([("fcst",)], 0)
        g1 = ds.grid([("fcst",)], 1)
        pts = sorted((g0[c][0], g1[c][0]) for c in ds.coords() if g0[c] is not None and g1[c] is not None)
        if not pts:
            return 0
        # the first line is the cross markers of all forecast pairs
        found = False
        for ln in ax["lines"]:
            got = sorted(zip(ln["x"], ln["y"]))
            if len(got) == len(pts) and all(cmpx.close(a, c) and cmpx.close(b, d) for (a, b), (c, d) in zip(got, pts)):
                found = True
                break
        if not found:
            J.fail("points", "no series holds the %d forecast pairs %r" % (len(pts), pts[:6]))
        if ax["xlabel"] != names[0] or ax["ylabel"] != names[1]:
            J.fail("order", "axes labelled (%r,%r), inputs %r" % (ax["xlabel"], ax["ylabel"], names))
        return len(pts)


@diagram("meteo", flavor="prob", max_inputs=1)
class Meteo(object):
    def args(self, case, spec):
        return ["-m", "meteo"]

    def options(self, draw, spec):
        return {}

    def verify(self, J, dump, ds, spec, case, names):
        ax = data_axes(dump)[0]
        xs = [datenum(ds.times[0] + l * 3600) for l in ds.leads]
        for fld, label in ((("obs",), "Observed"), (("fcst",), "Forecast")):
            g = ds.grid([fld], 0)
            ys = []
            for l in ds.leads:
                per_t = []
                for t in ds.times:
                    vals = [g[(t, l, s_)][0] for s_ in ds.ids if g[(t, l, s_)] is not None]
                    per_t.append(vals)
                # mean over time first (per location), then over locations: nanmean(nanmean(a, axis=0), axis=1)
                cols = []
                for s_ in ds.ids:
                    v = [g[(t, l, s_)][0] for t in ds.times if g[(t, l, s_)] is not None]
                    if v:
                        cols.append(mean(v))
                ys.append(mean(cols))
            J.series(ax, label, xs, ys, label.lower())
        return len(xs)


@diagram("autocorr", max_inputs=2)
class AutoCorr(object):
    def args(self, case, spec):
        return ["-m", case["opt"]["which"], "-x", case["opt"]["axis"], "-simple"]

    def options(self, draw, spec):
        return {"which": draw(st.sampled_from(["autocorr", "autocov"])), "axis": draw(st.sampled_from(["leadtime", "time", "lat", "elev"]))}

    def verify(self, J, dump, ds, spec, case, names):
        ax = data_axes(dump)[0]
        axis = case["opt"]["axis"]
        J.order(ax, names)
        pop = 0
        for i, nm in enumerate(names):
            g = ds.grid([("obs",), ("fcst",)], i)
            if axis == "leadtime":
                keys, dist = ds.leads, lambda a, b: abs(a - b)
                sel = lambda k: [(t, k, s_) for t in ds.times for s_ in ds.ids]
            elif axis == "time":
                keys, dist = ds.times, lambda a, b: abs(a - b) / 3600.0
                sel = lambda k: [(k, l, s_) for l in ds.leads for s_ in ds.ids]
            else:
                keys = ds.ids
                fld = "lat" if axis == "lat" else "elev"
                dist = lambda a, b: abs(ds.meta[a][fld] - ds.meta[b][fld])
                sel = lambda k: [(t, l, k) for t in ds.times for l in ds.leads]
            xs, ys = [], []
            for a in keys:
                for b_ in keys:
                    ea = [None if g[c] is None else g[c][0] - g[c][1] for c in sel(a)]
                    eb = [None if g[c] is None else g[c][0] - g[c][1] for c in sel(b_)]
                    pr = [(u, v) for u, v in zip(ea, eb) if u is not None and v is not None]
                    xs.append(dist(a, b_))
                    if len(pr) >= 2:
                        if case["opt"]["which"] == "autocorr":
                            r = model.pearson([u for u, v in pr], [v for u, v in pr])
                            ys.append(float("nan") if r is None else r)
                        else:
                            mu = mean(u for u, v in pr)
                            mv = mean(v for u, v in pr)
                            ys.append(math.fsum((u - mu) * (v - mv) for u, v in pr) / (len(pr) - 1))
                    else:
                        ys.append(float("nan"))
            J.series(ax, nm, xs, ys, "points", tol=1e-5)
            pop = max(pop, sum(1 for y in ys if y == y))
        return pop


@diagram("impact", min_inputs=2, max_inputs=2)
class Impact(object):
    def args(self, case, spec):
        return ["-m", "mae", "-type", "impact", "-r", edges_arg(case["opt"]["edges"])]

    def options(self, draw, spec):
        return {"edges": [-12.0, -6.0, 0.0, 6.0, 12.0]}

    def verify(self, J, dump, ds, spec, case, names):
        ax = data_axes(dump)[0]
        edges = case["opt"]["edges"]
        width = (edges[1] - edges[0]) / 2.0
        centres = [(a + b_) / 2.0 for a, b_ in zip(edges[:-1], edges[1:])]
        g0 = ds.grid([("obs",), ("fcst",)], 0)
        g1 = ds.grid([("obs",), ("fcst",)], 1)
        trip = [(g0[c][1], g1[c][1], g0[c][0]) for c in ds.coords() if g0[c] is not None and g1[c] is not None]
        red, blue = [], []
        for cx in centres:
            for cy in centres:
                sel = [(x, y, o) for x, y, o in trip if cx - width < x <= cx + width and cy - width < y <= cy + width]
                contrib = math.fsum((x - o) ** 2 - (y - o) ** 2 for x, y, o in sel)
                if contrib > 0:
                    red.append((cx, cy))
                elif contrib < 0:
                    blue.append((cx, cy))
        sc = ax["scatters"]
        if not red and not blue:
            return 0
        got_red = [s_ for s_ in sc if s_["label"] == "%s is worse" % names[0]]
        got_blue = [s_ for s_ in sc if s_["label"] == "%s is worse" % names[1]]
        if len(got_red) != 1 or len(got_blue) != 1:
            J.fail("series", "scatter labels %r" % [s_["label"] for s_ in sc])
            return 0
        for got, exp, who in ((got_red[0], red, 0), (got_blue[0], blue, 1)):
            gp = sorted((round(o[0], 6), round(o[1], 6)) for o in got["offsets"])
            if gp != sorted(exp):
                J.fail("cells", "cells where %s is worse drawn at %r, definition %r" % (names[who], gp, sorted(exp)))
        return len(red) + len(blue)


@diagram("rank", min_inputs=2, max_inputs=3)
class Rank(object):
    def args(self, case, spec):
        return ["-m", "mae", "-type", "rank", "-x", case["opt"]["axis"]]

    def options(self, draw, spec):
        return {"axis": draw(st.sampled_from(["leadtime", "time", "location"]))}

    def verify(self, J, dump, ds, spec, case, names):
        ax = data_axes(dump)[0]
        F = len(names)
        bars = ax["bars"]
        if len(bars) != (F + 1) * F:
            J.fail("bars/count", "%d bars, expected %d" % (len(bars), (F + 1) * F))
            return 0
        # validity: for every input the rank fractions (incl. the tie class) add up to 1
        axis = case["opt"]["axis"]
        nvalid = 0
        for k in range(ds.n_slices(axis)):
            if all(model.det_metric("mae", pairs(ds, i, axis, k)) is not None for i in range(F)):
                nvalid += 1
        if nvalid == 0:
            return 0
        for j in range(F):
            tot = sum(bars[r * F + j]["h"] for r in range(F + 1))
            if not cmpx.close(tot, 1.0, 1e-9):
                J.fail("partition", "rank fractions of input %d add up to %r" % (j, tot))
        return nvalid


@diagram("droc", max_inputs=2)
class DRoc(object):
    def args(self, case, spec):
        return ["-m", case["opt"]["which"], "-r", edges_arg([case["opt"]["t"]]), "-b", case["opt"]["bin"], "-simple"]

    def options(self, draw, spec):
        return {"which": draw(st.sampled_from(["droc", "droc0"])), "t": draw(st.sampled_from([0.0, 0.25, -1.0, 2.5])), "bin": draw(st.sampled_from(["above", "below", "above=", "below="]))}

    def verify(self, J, dump, ds, spec, case, names):
        ax = data_axes(dump)[0]
        b, t = case["opt"]["bin"], case["opt"]["t"]
        J.order(ax, names)
        pop = 0
        for i, nm in enumerate(names):
            cs = pairs(ds, i)
            if not cs:
                continue
            ls = lines_with(ax, nm)
            if len(ls) != 1:
                J.fail("series-count", "%d lines labelled %r" % (len(ls), nm))
                continue
            # validity: every drawn point is (false-alarm rate, hit rate) of SOME forecast threshold
            cand = sorted(set(f for o, f in cs))
            ths = [cand[0] - 100] + cand + [(a + c) / 2.0 for a, c in zip(cand, cand[1:])] + [cand[-1] + 100] + [t + k * (20.0 / 30) - 10 for k in range(31)] + [t]
            ok_pts = set()
            for ft in ths:
                a = sum(1 for o, f in cs if model.in_event(b, f, ft) and model.in_event(b, o, t))
                bb = sum(1 for o, f in cs if model.in_event(b, f, ft) and not model.in_event(b, o, t))
                c = sum(1 for o, f in cs if not model.in_event(b, f, ft) and model.in_event(b, o, t))
                d = sum(1 for o, f in cs if not model.in_event(b, f, ft) and not model.in_event(b, o, t))
                fa = bb / float(bb + d) if bb + d else float("nan")
                hit = a / float(a + c) if a + c else float("nan")
                ok_pts.add((round(fa, 6) if fa == fa else None, round(hit, 6) if hit == hit else None))
            ok_pts.add((1.0, 1.0))
            ok_pts.add((0.0, 0.0))
            for x, y in zip(ls[0]["x"], ls[0]["y"]):
                key = (round(x, 6) if x == x else None, round(y, 6) if y == y else None)
                if key not in ok_pts:
                    J.fail("point", "point (%r,%r) is not (false-alarm rate, hit rate) of any forecast threshold" % (x, y))
                    break
            if case["opt"]["which"] == "droc0":
                a = sum(1 for o, f in cs if model.in_event(b, f, t) and model.in_event(b, o, t))
                bb = sum(1 for o, f in cs if model.in_event(b, f, t) and not model.in_event(b, o, t))
                c = sum(1 for o, f in cs if not model.in_event(b, f, t) and model.in_event(b, o, t))
                d = sum(1 for o, f in cs if not model.in_event(b, f, t) and not model.in_event(b, o, t))
                ex = [1.0, bb / float(bb + d) if bb + d else float("nan"), 0.0]
                ey = [1.0, a / float(a + c) if a + c else float("nan"), 0.0]
                J.series(ax, nm, ex, ey, "curve")
            pop += 1
        return pop


@diagram("performance", max_inputs=2)
class Performance(object):
    def args(self, case, spec):
        return ["-m", "performance", "-r", edges_arg([case["opt"]["t"]]), "-b", case["opt"]["bin"], "-simple"]

    def options(self, draw, spec):
        return {"t": draw(st.sampled_from([0.0, 0.25, -1.0, 2.5])), "bin": draw(st.sampled_from(["above", "below", "above=", "below="]))}

    def verify(self, J, dump, ds, spec, case, names):
        ax = data_axes(dump)[0]
        b, t = case["opt"]["bin"], case["opt"]["t"]
        pop = 0
        for i, nm in enumerate(names):
            cs = pairs(ds, i)
            if not cs:
                continue
            a = sum(1 for o, f in cs if model.in_event(b, f, t) and model.in_event(b, o, t))
            bb = sum(1 for o, f in cs if model.in_event(b, f, t) and not model.in_event(b, o, t))
            c = sum(1 for o, f in cs if not model.in_event(b, f, t) and model.in_event(b, o, t))
            sr = 1 - bb / float(a + bb) if a + bb else float("nan")
            pod = a / float(a + c) if a + c else float("nan")
            J.series(ax, nm, [sr], [pod], "point")
            pop += 1
        return pop


XAXES = ["leadtime", "time", "location", "month", "leadtimeday"]


def points_at(J, ax, label, exp, name="points", tol=1e-5):
    """Exactly one line labelled `label` with one point per entry of exp; entries that are None are not judged
    (the definition is undefined there and the drawn value is whatever the division gave)."""
    ls = lines_with(ax, label)
    if len(ls) != 1:
        J.fail(name + "/series-count", "%d lines labelled %r (labels: %r)" % (len(ls), label, [l["label"] for l in ax["lines"]][:12]))
        return False
    gx, gy = list(ls[0]["x"]), list(ls[0]["y"])
    if len(gx) != len(exp):
        J.fail(name + "/count", "series %r has %d points, the axis has %d slices" % (label, len(gx), len(exp)))
        return False
    for k, e in enumerate(exp):
        if e is None:
            continue
        if not (cmpx.close(gx[k], e[0], tol) and cmpx.close(gy[k], e[1], tol)):
            J.fail(name, "series %r slice %d drawn at (%r, %r); the definition on that slice's valid cases gives (%r, %r)" % (label, k, gx[k], gy[k], e[0], e[1]))
            return False
    return True


@diagram("scatter-x")
class ScatterX(object):
    """-m scatter -x <axis>: one point per slice at (mean obs, mean fcst) of the slice's valid pairs."""
    def args(self, case, spec):
        return ["-m", "scatter", "-x", case["opt"]["axis"], "-simple"]

    def options(self, draw, spec):
        return {"axis": draw(st.sampled_from(XAXES))}

    def verify(self, J, dump, ds, spec, case, names):
        ax = data_axes(dump)[0]
        J.order(ax, names)
        axis = case["opt"]["axis"]
        pop = 0
        for i, nm in enumerate(names):
            exp = []
            for k in range(ds.n_slices(axis)):
                cs = pairs(ds, i, axis, k)
                exp.append((mean(o for o, f in cs), mean(f for o, f in cs)))
            points_at(J, ax, nm, exp)
            pop = max(pop, sum(1 for e in exp if e[0] == e[0]))
        return pop


@diagram("taylor-x")
class TaylorX(object):
    """-m taylor -x <axis>: one point per slice, normalised by the slice's own observation spread."""
    def args(self, case, spec):
        return ["-m", "taylor", "-x", case["opt"]["axis"]]

    def options(self, draw, spec):
        return {"axis": draw(st.sampled_from(XAXES))}

    def verify(self, J, dump, ds, spec, case, names):
        ax = data_axes(dump)[0]
        axis = case["opt"]["axis"]
        n = ds.n_slices(axis)
        pop = 0
        for i, nm in enumerate(names):
            exp = []
            for k in range(n):
                cs = pairs(ds, i, axis, k)
                e = None
                if len(cs) >= 2:
                    sf = model.aggregate("std", [f for o, f in cs])
                    so = model.aggregate("std", [o for o, f in cs])
                    r = model.pearson([o for o, f in cs], [f for o, f in cs])
                    if r is not None and so > 0 and sf > 0:
                        sn = sf / so if n > 1 else sf
                        e = (sn * r, sn * math.sqrt(max(0.0, 1 - r * r)))
                exp.append(e)
            points_at(J, ax, nm, exp)
            pop = max(pop, sum(1 for e in exp if e is not None))
        if n > 1:
            ls = lines_with(ax, "Observed")
            if len(ls) != 1 or not (eq_arr(ls[0]["x"], [1.0], 1e-9) and eq_arr(ls[0]["y"], [0.0], 1e-9)):
                J.fail("obs-point", "observation point of the normalised diagram %r, expected (1, 0)" % (ls and (ls[0]["x"], ls[0]["y"]),))
        return pop


@diagram("performance-x", max_inputs=2)
class PerformanceX(object):
    """-m performance -x <axis>: one (success ratio, probability of detection) point per slice."""
    def args(self, case, spec):
        return ["-m", "performance", "-r", edges_arg([case["opt"]["t"]]), "-b", case["opt"]["bin"], "-x", case["opt"]["axis"], "-simple"]

    def options(self, draw, spec):
        return {"t": draw(st.sampled_from([0.0, 0.25, -1.0, 2.5])), "bin": draw(st.sampled_from(["above", "below", "above=", "below="])),
                "axis": draw(st.sampled_from(XAXES))}

    def verify(self, J, dump, ds, spec, case, names):
        ax = data_axes(dump)[0]
        b, t, axis = case["opt"]["bin"], case["opt"]["t"], case["opt"]["axis"]
        pop = 0
        for i, nm in enumerate(names):
            exp = []
            for k in range(ds.n_slices(axis)):
                cs = pairs(ds, i, axis, k)
                a = sum(1 for o, f in cs if model.in_event(b, f, t) and model.in_event(b, o, t))
                bb = sum(1 for o, f in cs if model.in_event(b, f, t) and not model.in_event(b, o, t))
                c = sum(1 for o, f in cs if not model.in_event(b, f, t) and model.in_event(b, o, t))
                sr = 1 - bb / float(a + bb) if a + bb else float("nan")
                pod = a / float(a + c) if a + c else float("nan")
                exp.append((sr, pod))
            points_at(J, ax, nm, exp, tol=1e-9)
            pop = max(pop, sum(1 for e in exp if e[0] == e[0] and e[1] == e[1]))
        return pop


@diagram("bsdecomp-x", flavor="prob")
class BsDecompX(object):
    """-m bsdecomp -x <axis>: one (reliability, resolution) point per slice."""
    def args(self, case, spec):
        T = prob_threshold(spec)
        if not T:
            return None
        return ["-m", "bsdecomp", "-r", edges_arg(T[:1]), "-b", case["opt"]["bin"], "-x", case["opt"]["axis"]]

    def options(self, draw, spec):
        return {"bin": draw(st.sampled_from(["above", "below", "above=", "below="])), "axis": draw(st.sampled_from(XAXES))}

    def verify(self, J, dump, ds, spec, case, names):
        ax = data_axes(dump)[0]
        t = prob_threshold(spec)[0]
        b, axis = case["opt"]["bin"], case["opt"]["axis"]
        pop = 0
        for i, nm in enumerate(names):
            exp = []
            for k in range(ds.n_slices(axis)):
                cs = [(1 if model.in_event(b, o, t) else 0, prob_event(b, p)) for o, p in pcases(ds, i, t, axis, k)]
                if not cs or any(model.near_decimal_edge(p) or p < 0 for o, p in cs):
                    exp.append(None)
                    continue
                terms = model.brier_terms([p for o, p in cs], [o for o, p in cs])
                exp.append((terms["bsrel"], terms["bsres"]))
            points_at(J, ax, nm, exp, tol=1e-7)
            pop = max(pop, sum(1 for e in exp if e is not None))
        return pop


@diagram("fss", max_inputs=2)
class Fss(object):
    def args(self, case, spec):
        return ["-m", "fss", "-r", "0.25", "-x", "leadtime"]

    def options(self, draw, spec):
        return {}

    def verify(self, J, dump, ds, spec, case, names):
        ax = data_axes(dump)[0]
        J.order(ax, names)
        for nm in names:
            ls = lines_with(ax, nm)
            if len(ls) != 1:
                J.fail("series-count", "%d lines labelled %r" % (len(ls), nm))
                continue
            if any(y == y and y > 1 + 1e-9 for y in ls[0]["y"]):
                J.fail("range", "fractions skill score above 1: %r" % ls[0]["y"])
        return len(names)


@diagram("invreliability", flavor="prob")
class InvReliability(object):
    def args(self, case, spec):
        qs = None
        for d in spec["inputs"]:
            s_ = set(d.get("quantiles") or [])
            qs = s_ if qs is None else qs & s_
        qs = sorted(qs or [])
        if not qs:
            return None
        case["opt"]["q"] = qs[0]
        return ["-m", "invreliability", "-q", edges_arg([qs[0]]), "-r", edges_arg(case["opt"]["edges"]), "-simple"]

    def options(self, draw, spec):
        return {"edges": [-12.0, -4.0, 0.0, 4.0, 12.0]}

    def verify(self, J, dump, ds, spec, case, names):
        ax = data_axes(dump)[0]
        q = case["opt"]["q"]
        edges = case["opt"]["edges"]
        J.order(ax, names)
        pop = 0
        for i, nm in enumerate(names):
            cs = ds.cases([("obs",), ("q", q)], i)
            xs, ys = [], []
            for lo, hi in zip(edges[:-1], edges[1:]):
                sel = [(o, x) for o, x in cs if lo <= x < hi]
                xs.append(mean(x for o, x in sel) if sel else 0.0)
                ys.append(mean(1.0 if o <= x else 0.0 for o, x in sel) if len(sel) >= 2 else float("nan"))
            J.series(ax, nm, xs, ys, "curve")
            pop = max(pop, sum(1 for y in ys if y == y))
        return pop


# ----------------------------------------------------------------------------------------------
def strategy(tier):
    names = sorted(DIAGRAMS.keys())

    @st.composite
    def s(draw):
        name = draw(st.sampled_from(names))
        info = DIAGRAMS[name]
        flavor = info["flavor"]
        spec = draw(gen.dataset(max_inputs=info["max_inputs"], min_inputs=info["min_inputs"], clim=False, flavor="full" if flavor == "prob" else "det",
                                core_max=4, extra_max=1, allow_drop=False, allow_obsless=False, max_members=2, allow_all_missing=False, ordered_dims=True))
        opt = info["cls"].options(draw, spec)
        return {"diagram": name, "spec": spec, "opt": opt}
    return s()


def check_diagram(case, ctx, pid="C16"):
    from .. import drive, figdump, mat
    name = case["diagram"]
    info = DIAGRAMS[name]
    spec = case["spec"]
    ds = model.DS(spec)
    if ds.empty:
        return
    case = dict(case, opt=dict(case["opt"]))
    dargs = info["cls"].args(case, spec)
    if dargs is None:
        ctx.label("not-applicable")
        return
    _counter[0] += 1
    d = os.path.join(ctx.scratch, "g%d" % _counter[0])
    os.makedirs(d)
    paths, _ = mat.write_files(spec, d, "text")
    names = [os.path.basename(p) for p in paths]
    argv = names + dargs
    r = drive.run(paths + dargs)
    ctx.evals += 1
    ctx.label("diagram=" + name)
    J = Judge(ctx, case, name, argv, pid)
    if r.exc is not None:
        ctx.fail("%s/%s/exception/%s" % (pid, name, r.exc_key), case, "argv: %s\n%s" % (" ".join(map(str, argv)), r.tb[-700:]))
        return
    if r.exit not in (None, 0):
        ctx.label("error-exit/" + name)
        return
    dump = figdump.dump_current()
    if not dump["axes"]:
        J.fail("no-axes", "the figure has no axes")
        return
    try:
        pop = info["cls"].verify(J, dump, ds, spec, case, names)
    except (IndexError, KeyError, TypeError, ValueError, ZeroDivisionError) as e:
        # the figure does not have the structure this diagram is known to draw (axes, series, bars)
        import traceback
        J.fail("unexpected-structure", "%s: %s\n%s" % (type(e).__name__, e, traceback.format_exc()[-400:]))
        return
    if len(names) >= 2 and pop and pop >= 2:
        ctx.nt((name, case["opt"], ds.times, ds.leads, ds.ids, [dd["fcst"] for dd in spec["inputs"]], [dd["obs"] for dd in spec["inputs"]]))
        ctx.label("nontrivial")
        ctx.sample({"argv": argv, "series": [{"label": ln["label"], "x": ln["x"][:5], "y": ln["y"][:5]} for ln in data_axes(dump)[0]["lines"][:3]]})


def campaigns(tier):
    return [
        Hyp("diagrams", strategy, check_diagram, quick=4000, thorough=40000, budget_quick=80, budget_thorough=2400),
    ]
