"""C17 - Plot appearance options are honoured in the produced figure."""
import os
import struct

from hypothesis import strategies as st

from .. import cmpx, fixed
from ..runner import Enum, Hyp

ID = "C17"
TITLE = "Plot appearance options are honoured in the produced figure"
RULE = ("Random subsets (1-8) and values of the documented appearance options on 15 kinds of figure (standard line plot, "
        "-x no bar plot, -type map, pithist and igncontrib with several sub-axes, obsfcst, qq, freq, roc, timeseries, scatter, "
        "marginal, spreadskill, error, cond) over three hand-built datasets, written with "
        "-f out.<png|jpg|pdf|svg|eps>. After verif.driver.run the figure is read back (titles, labels, limits, ticks and tick "
        "labels, rotations, scales, legend texts/size/location, per-line colour/style/width/marker/size with cycling, font "
        "sizes, grid colour/style/width/visibility, perfect-score line, aspect, figure size, subplot parameters, annotations) "
        "and each option present must show its documented effect whatever other options accompany it; the file must exist "
        "with the magic bytes of its extension, PNG dpi metadata equal to -dpi and pixel size = inches x dpi when explicit "
        "margins disable the tight bounding box. (styles) -lc/-ls/-lw/-ma/-ms (with cycling, optionally -leg) on 17 kinds of plot "
        "that draw one labelled series per input (obsfcst, qq, scatter, error, taylor, performance, reliability, freq, roc, "
        "timeseries, spreadskill, marginal and standard plots over time/location/threshold/leadtime): the k-th input's series "
        "carries the k-th value. (single-options) exhaustively every kind of figure x option x value, one option at a time. Non-trivial: >=3 appearance options in one run, or a style list with >=2 different values; "
        "distinct by hash of (kind, options).")
ASSUMPTIONS = [
    "titles/labels are generated without '_' (its replacement by a space is documented for -leg only)",
    "option pairs that contradict each other by design are not combined: -nogrid with -gc/-gs/-gw, -nomargin with -left/-right/-top/-bottom, "
    "-legfs 0 with -leg/-legloc, -xlog/-ylog with non-positive limits or ticks",
    "map-only options (-clim, -clabel) are checked on maps only; cartopy backgrounds are not installed",
    "the reliability diagram's inset histogram is the diagram's own decoration: general options are not demanded of it (the diagram is only in the styles campaign)",
]

KINDS = ["line", "line", "bar", "map", "pithist", "igncontrib", "obsfcst", "qq", "freq", "roc", "timeseries", "scatter", "marginal", "spreadskill", "error", "cond"]
SHAPES = ["full2", "full3", "full2-nomissing"]
COLORS = {"red": [1.0, 0.0, 0.0, 1.0], "blue": [0.0, 0.0, 1.0, 1.0], "green": [0.0, 0.502, 0.0, 1.0], "k": [0.0, 0.0, 0.0, 1.0], "0.3": [0.3, 0.3, 0.3, 1.0], "[0.3,0,0]": [0.3, 0.0, 0.0, 1.0]}
LEGLOC = {"upper_left": 2, "lower_right": 4, "center": 10, "upper_right": 1, "lower_left": 3}

# option -> (kinds it is generated for, value strategy)
OPTIONS = {
    "title": (["line", "bar", "map", "pithist", "igncontrib", "obsfcst", "qq", "freq", "roc", "timeseries", "scatter", "marginal", "spreadskill", "error", "cond"], st.sampled_from(["My title", "Run 3 vs 4", "T", ""])),
    "xlabel": (["line", "bar", "pithist", "igncontrib", "map", "obsfcst", "qq", "freq", "roc", "timeseries", "scatter", "marginal", "spreadskill", "error", "cond"], st.sampled_from(["lead (h)", "X", ""])),
    "ylabel": (["line", "bar", "pithist", "igncontrib", "map", "obsfcst", "qq", "freq", "roc", "timeseries", "scatter", "marginal", "spreadskill", "error", "cond"], st.sampled_from(["error (K)", "Y", ""])),
    "clabel": (["map"], st.sampled_from(["colour label", "C", ""])),
    "xlim": (["line", "pithist", "igncontrib"], st.sampled_from([[1.0, 30.0], [0.5, 100.0], [0.25, 0.75]])),
    "ylim": (["line", "bar", "pithist", "igncontrib", "obsfcst", "qq", "freq", "roc", "timeseries", "scatter", "marginal", "spreadskill", "error", "cond"], st.sampled_from([[0.5, 5.0], [1.0, 20.0], [0.1, 3.5]])),
    "clim": (["map"], st.sampled_from([[0.0, 5.0], [1.0, 2.0]])),
    "xticks": (["line", "pithist", "igncontrib"], st.sampled_from([[1.0, 12.0, 24.0], [6.0, 18.0]])),
    "xticklabels": (["line", "pithist", "igncontrib"], st.sampled_from([["a", "b", "c"], ["first", "second"]])),
    "yticks": (["line", "bar", "pithist", "igncontrib", "obsfcst", "qq", "freq", "roc", "timeseries", "scatter", "marginal", "spreadskill", "error", "cond"], st.sampled_from([[0.5, 1.0, 2.0], [1.0, 4.0]])),
    "yticklabels": (["line", "bar", "pithist", "igncontrib", "obsfcst", "qq", "freq", "roc", "timeseries", "scatter", "marginal", "spreadskill", "error", "cond"], st.sampled_from([["lo", "mid", "hi"], ["p", "q"]])),
    "xrot": (["bar", "line", "pithist", "igncontrib", "obsfcst", "qq", "freq", "roc", "timeseries", "scatter", "marginal", "spreadskill", "error", "cond"], st.sampled_from([45.0, 90.0, 30.0, 0.0])),
    "yrot": (["line", "pithist", "igncontrib", "obsfcst", "qq", "freq", "roc", "timeseries", "scatter", "marginal", "spreadskill", "error", "cond"], st.sampled_from([45.0, 60.0, 0.0, 90.0])),
    "xlog": (["line"], st.just(True)),
    "ylog": (["line"], st.just(True)),
    "leg": (["line", "igncontrib"], st.sampled_from([["A", "B_c", "D"], ["new_run", "old", "x"]])),
    "legfs": (["line", "igncontrib"], st.sampled_from([7.0, 11.0, 0.0])),
    "legloc": (["line", "igncontrib"], st.sampled_from(sorted(LEGLOC.keys()))),
    "lc": (["line", "igncontrib"], st.sampled_from([["red", "blue"], ["green"], ["k", "0.3", "red"]])),
    "ls": (["line", "igncontrib"], st.sampled_from([["--", "-"], [":"], ["-.", "--", "-"]])),
    "lw": (["line", "igncontrib"], st.sampled_from([[1.0, 3.0], [0.5], [4.0, 2.0, 1.0]])),
    "ma": (["line", "igncontrib"], st.sampled_from([["x", "s"], ["^"], ["o", "*", "."]])),
    "ms": (["line", "igncontrib"], st.sampled_from([[4, 9], [12], [3, 5, 7]])),
    "labfs": (["line", "bar", "pithist", "igncontrib", "obsfcst", "qq", "freq", "roc", "timeseries", "scatter", "marginal", "spreadskill", "error", "cond"], st.sampled_from([9.0, 21.0])),
    "tickfs": (["line", "pithist", "igncontrib", "obsfcst", "qq", "freq", "roc", "timeseries", "scatter", "marginal", "spreadskill", "error", "cond"], st.sampled_from([7.0, 19.0])),
    "titlefs": (["line", "pithist", "igncontrib", "map", "obsfcst", "qq", "freq", "roc", "timeseries", "scatter", "marginal", "spreadskill", "error", "cond"], st.sampled_from([9.0, 23.0])),
    "gc": (["line", "pithist", "igncontrib", "obsfcst", "qq", "freq", "roc", "timeseries", "scatter", "marginal", "spreadskill", "error", "cond"], st.sampled_from(["red", "blue", "0.3", "[0.3,0,0]"])),
    "gs": (["line", "pithist", "igncontrib", "obsfcst", "qq", "freq", "roc", "timeseries", "scatter", "marginal", "spreadskill", "error", "cond"], st.sampled_from([":", "--"])),
    "gw": (["line", "pithist", "igncontrib", "obsfcst", "qq", "freq", "roc", "timeseries", "scatter", "marginal", "spreadskill", "error", "cond"], st.sampled_from([2.0, 0.5])),
    "nogrid": (["line", "pithist", "igncontrib", "bar", "obsfcst", "qq", "freq", "roc", "timeseries", "scatter", "marginal", "spreadskill", "error", "cond"], st.just(True)),
    "sp": (["line"], st.just(True)),
    "aspect": (["line", "pithist"], st.sampled_from([2.0, 0.5])),
    "fs": (["line", "bar", "map", "pithist", "igncontrib", "obsfcst", "qq", "freq", "roc", "timeseries", "scatter", "marginal", "spreadskill", "error", "cond"], st.sampled_from([[7, 5], [4, 9], [6.5, 4]])),
    "dpi": (["line", "bar", "map", "pithist", "igncontrib", "obsfcst", "qq", "freq", "roc", "timeseries", "scatter", "marginal", "spreadskill", "error", "cond"], st.sampled_from([50, 80])),
    "left": (["line", "bar", "pithist", "igncontrib", "obsfcst", "qq", "freq", "roc", "timeseries", "scatter", "marginal", "spreadskill", "error", "cond"], st.sampled_from([0.2, 0.3])),
    "right": (["line", "bar", "pithist", "igncontrib", "obsfcst", "qq", "freq", "roc", "timeseries", "scatter", "marginal", "spreadskill", "error", "cond"], st.sampled_from([0.8, 0.9])),
    "top": (["line", "bar", "pithist", "igncontrib", "obsfcst", "qq", "freq", "roc", "timeseries", "scatter", "marginal", "spreadskill", "error", "cond"], st.sampled_from([0.85, 0.7])),
    "bottom": (["line", "bar", "pithist", "igncontrib", "obsfcst", "qq", "freq", "roc", "timeseries", "scatter", "marginal", "spreadskill", "error", "cond"], st.sampled_from([0.25, 0.3])),
    "nomargin": (["line", "bar", "pithist", "obsfcst", "qq", "freq", "roc", "timeseries", "scatter", "marginal", "spreadskill", "error", "cond"], st.just(True)),
    "a": (["line"], st.just(True)),
    "afs": (["line"], st.sampled_from([5.0, 15.0])),
}
# -nogrid together with -gc/-gs/-gw is generated: there is then no grid to style, and -nogrid must still remove it
CONFLICTS = [({"nomargin"}, {"left", "right", "top", "bottom"})]


def strategy(tier):
    @st.composite
    def s(draw):
        kind = draw(st.sampled_from(KINDS))
        avail = sorted(k for k, (kinds, _) in OPTIONS.items() if kind in kinds)
        n = draw(st.sampled_from([1, 2, 3, 3, 4, 5, 6, 8]))
        names = draw(st.lists(st.sampled_from(avail), min_size=min(n, len(avail)), max_size=min(n, len(avail)), unique=True))
        for a, b in CONFLICTS:
            if set(names) & a:
                names = [x for x in names if x not in b]
        opts = {}
        for nm in names:
            opts[nm] = draw(OPTIONS[nm][1])
        # paired options
        if "xticklabels" in opts:
            opts["xticks"] = [1.0, 12.0, 24.0][:len(opts["xticklabels"])] if len(opts["xticklabels"]) == 3 else [6.0, 18.0]
        if "yticklabels" in opts:
            opts["yticks"] = [0.5, 1.0, 2.0] if len(opts["yticklabels"]) == 3 else [1.0, 4.0]
        if "afs" in opts:
            opts["a"] = True
        if opts.get("legfs") == 0.0:
            opts.pop("leg", None)
            opts.pop("legloc", None)
        return {"kind": kind, "shape": draw(st.sampled_from(SHAPES)), "opts": opts, "ext": draw(st.sampled_from(["png", "png", "png", "jpg", "pdf", "svg", "eps"]))}
    return s()


PURE_STYLE = {"title": ["title"], "xlabel": ["xlabel"], "ylabel": ["ylabel"], "labfs": [], "titlefs": [], "tickfs": [], "legfs": ["legend"],
              "lc": [], "ls": [], "ma": [], "gc": [], "gs": [], "gw": [], "leg": ["legend"], "legloc": [], "afs": []}


def frame(dump, dropped):
    """Observables that a purely cosmetic option must not influence."""
    skip = PURE_STYLE[dropped]
    out = {"size": dump["size"]}
    for i, a in enumerate(ax for ax in dump["axes"] if not ax["is_colorbar"]):
        for k in ("xlim", "ylim", "xscale", "yscale", "xticks", "yticks", "title", "xlabel", "ylabel"):
            if k not in skip:
                out["%d.%s" % (i, k)] = [round(v, 9) for v in a[k]] if isinstance(a[k], list) else a[k]
        out["%d.lines" % i] = [[[round(v, 9) if v == v else None for v in ln["x"]], [round(v, 9) if v == v else None for v in ln["y"]]] for ln in a["lines"] if "legend" not in skip or True]
        if "legend" not in skip:
            out["%d.legend" % i] = None if a["legend"] is None else a["legend"]["texts"]
        out["%d.ntexts" % i] = len(a["texts"])
    return out


def render(opts):
    def nums(vs):
        return ",".join(("%d" % v) if float(v) == int(v) else repr(float(v)) for v in vs)
    args = []
    for k, v in opts.items():
        if k in ("title", "xlabel", "ylabel", "clabel", "gc", "gs", "legloc"):
            args += ["-" + k, str(v)]
        elif k in ("xlim", "ylim", "clim", "xticks", "yticks", "lw", "ms", "fs"):
            args += ["-" + k, nums(v)]
        elif k in ("xticklabels", "yticklabels", "leg", "lc", "ls", "ma"):
            args += ["-" + k, ",".join(v)]
        elif k in ("xrot", "yrot", "legfs", "labfs", "tickfs", "titlefs", "gw", "aspect", "left", "right", "top", "bottom", "afs", "dpi"):
            args += ["-" + k, nums([v])]
        elif k in ("xlog", "ylog", "nogrid", "sp", "nomargin", "a"):
            args += ["-" + k]
    return args


MAGIC = {"png": b"\x89PNG", "jpg": b"\xff\xd8", "pdf": b"%PDF", "svg": b"<?xml", "eps": b"%!PS"}
_files = {}
_runs = [0]


def png_info(path):
    """-> (width, height, dpi or None) from the IHDR and pHYs chunks."""
    data = open(path, "rb").read()
    w, h = struct.unpack(">II", data[16:24])
    dpi = None
    i = data.find(b"pHYs")
    if i > 0:
        ppm_x, ppm_y, unit = struct.unpack(">IIB", data[i + 4:i + 13])
        if unit == 1:
            dpi = ppm_x * 0.0254
    return w, h, dpi


def check_figure(case, ctx):
    from .. import drive, figdump, mat
    kind, opts = case["kind"], case["opts"]
    key = (case["shape"],)
    if key not in _files or not os.path.exists(_files[key][0]):
        d = os.path.join(ctx.scratch, "files_" + case["shape"])
        os.makedirs(d, exist_ok=True)
        _files[key] = mat.write_files(fixed.get(case["shape"]), d, "text")[0]
    paths = _files[key]
    n_in = len(paths)
    out = os.path.join(ctx.scratch, "fig_%d.%s" % (os.getpid(), case["ext"]))
    if os.path.exists(out):
        os.remove(out)
    base = {"line": ["-m", "mae", "-x", "leadtime"], "bar": ["-m", "mae", "-x", "no"], "map": ["-m", "mae", "-type", "map"],
            "pithist": ["-m", "pithist"], "igncontrib": ["-m", "igncontrib", "-r", "1"],
            "obsfcst": ["-m", "obsfcst"], "qq": ["-m", "qq"], "freq": ["-m", "freq", "-r", "0,1,2"], "roc": ["-m", "roc", "-r", "1"],
            "timeseries": ["-m", "timeseries"], "scatter": ["-m", "scatter"], "marginal": ["-m", "marginal", "-r", "0,1,2"],
            "spreadskill": ["-m", "spreadskill"], "error": ["-m", "error"], "cond": ["-m", "cond", "-r", "0,1,2"]}[kind]
    if "leg" in opts:
        opts = dict(opts, leg=list(opts["leg"])[:n_in])
    args = list(paths) + base + render(opts) + ["-f", out]
    r = drive.run(args)
    _runs[0] += 1
    ctx.evals += 1
    short = [os.path.basename(a) if os.sep in str(a) else a for a in args]
    ctx.label("kind=" + kind)
    for o in opts:
        ctx.label("opt=-" + o)
    if len(opts) >= 3:
        ctx.nt((kind, case["shape"], opts, case["ext"]))
        ctx.label("nontrivial")
        ctx.sample({"argv": short})
    sub = dict(case)
    if r.exc is not None:
        which = [o for o in ("fs", "gw", "legloc", "ma", "ls", "lc") if o in opts]
        ctx.fail("C17/exception/%s%s" % (r.exc_key, ("/-fs-float" if ("fs" in opts and any(float(v) != int(v) for v in opts["fs"])) else "")), sub, "argv: %s\n%s" % (" ".join(map(str, short)), r.tb[-600:]))
        drive.close_figures()
        return
    if r.exit not in (None, 0):
        ctx.fail("C17/exit", sub, "argv: %s: %s" % (" ".join(map(str, short)), " | ".join(r.error_lines())))
        return
    dump = figdump.dump_current()
    if _runs[0] % 20 == 0:
        drive.close_figures()
    axes = [a for a in dump["axes"] if not a["is_colorbar"]]
    cbars = [a for a in dump["axes"] if a["is_colorbar"]]

    def fail(opt, msg):
        ctx.fail("C17/applied/-" + opt, sub, "argv: %s: %s" % (" ".join(map(str, short)), msg))

    main = axes[0] if axes else None
    if main is None:
        ctx.fail("C17/no-axes", sub, "no axes in the figure")
        return
    legend_names = [os.path.basename(p) for p in paths]
    if "leg" in opts:
        legend_names = [x.replace("_", " ") for x in opts["leg"]][:n_in] if len(opts["leg"]) >= n_in else None
    data_lines = []
    if kind in ("line", "igncontrib"):
        names = legend_names or []
        data_lines = [ln for ln in main["lines"] if ln["label"] in names]
    # ---- one observable per option ----
    for o, v in opts.items():
        if o == "title":
            bad = [a["title"] for a in axes if a["title"] != v]
            if bad:
                fail(o, "axes titles %r, expected %r everywhere" % ([a["title"] for a in axes], v))
        elif o in ("xlabel", "ylabel"):
            if any(a[o] != v for a in axes):
                fail(o, "%ss %r, expected %r" % (o, [a[o] for a in axes], v))
        elif o == "clabel":
            if not cbars or all(c["ylabel"] != v and c["xlabel"] != v for c in cbars):
                fail(o, "colour bar labels %r, expected %r" % ([(c["xlabel"], c["ylabel"]) for c in cbars], v))
        elif o in ("xlim", "ylim"):
            if any(not (cmpx.close(a[o][0], v[0], 1e-9) and cmpx.close(a[o][1], v[1], 1e-9)) for a in axes):
                fail(o, "%s %r, expected %r" % (o, [a[o] for a in axes], v))
        elif o == "clim":
            sc = [s_ for a in axes for s_ in a["scatters"] if s_["array"] is not None]
            if not sc or any(not (cmpx.close(s_["clim"][0], v[0]) and cmpx.close(s_["clim"][1], v[1])) for s_ in sc):
                fail(o, "colour limits %r, expected %r" % ([s_["clim"] for s_ in sc], v))
        elif o in ("xticks", "yticks"):
            if any(not (len(a[o]) == len(v) and all(cmpx.close(g, e) for g, e in zip(a[o], v))) for a in axes):
                fail(o, "%s %r, expected %r" % (o, [a[o] for a in axes], v))
        elif o in ("xticklabels", "yticklabels"):
            if any([t["text"] for t in a[o]] != list(v) for a in axes):
                fail(o, "%s %r, expected %r" % (o, [[t["text"] for t in a[o]] for a in axes], v))
        elif o in ("xrot", "yrot"):
            labs = [t for a in axes for t in a["xticklabels" if o == "xrot" else "yticklabels"]]
            if not labs or any(not cmpx.close(t["rot"], v) for t in labs):
                fail(o, "tick label rotations %r, expected %r" % (sorted(set(t["rot"] for t in labs)), v))
        elif o in ("xlog", "ylog"):
            if any(a["xscale" if o == "xlog" else "yscale"] != "log" for a in axes):
                fail(o, "scales %r" % [a["xscale" if o == "xlog" else "yscale"] for a in axes])
        elif o == "leg":
            if legend_names is not None:
                leg = main["legend"]
                if leg is None or [t for t in leg["texts"] if t != "ideal"][:n_in] != legend_names:
                    fail(o, "legend texts %r, expected %r" % (leg and leg["texts"], legend_names))
        elif o == "legfs":
            leg = main["legend"]
            if v == 0:
                if leg is not None:
                    fail(o, "-legfs 0 must hide the legend, texts %r" % leg["texts"])
            elif leg is None or any(not cmpx.close(f, v) for f in leg["fs"]):
                fail(o, "legend font sizes %r, expected %r" % (leg and leg["fs"], v))
        elif o == "legloc":
            leg = main["legend"]
            if leg is None or leg["loc"] != LEGLOC[v]:
                fail(o, "legend location code %r, expected %r (%s)" % (leg and leg["loc"], LEGLOC[v], v))
        elif o in ("lc", "ls", "lw", "ma", "ms"):
            if len(data_lines) == n_in:
                for f, ln in enumerate(data_lines):
                    want = v[f % len(v)]
                    if o == "lc":
                        ok = ln["color"] == COLORS[want] or all(abs(a - b) < 0.01 for a, b in zip(ln["color"], COLORS[want]))
                    elif o == "ls":
                        ok = ln["ls"] == want
                    elif o == "lw":
                        ok = cmpx.close(ln["lw"], want)
                    elif o == "ma":
                        ok = ln["marker"] == want
                    else:
                        ok = cmpx.close(ln["ms"], want)
                    if not ok:
                        fail(o, "line %d (%s) has %s=%r, expected %r (cycling %r)" % (f, ln["label"], o, ln[{"lc": "color", "ls": "ls", "lw": "lw", "ma": "marker", "ms": "ms"}[o]], want, v))
                        break
            else:
                fail(o, "found %d data lines for %d inputs (labels %r)" % (len(data_lines), n_in, [ln["label"] for ln in main["lines"]]))
        elif o == "labfs":
            if any(not (cmpx.close(a["xlabel_fs"], v) and cmpx.close(a["ylabel_fs"], v)) for a in axes):
                fail(o, "label font sizes %r, expected %r" % ([(a["xlabel_fs"], a["ylabel_fs"]) for a in axes], v))
        elif o == "tickfs":
            labs = [t for a in axes for t in a["xticklabels"] + a["yticklabels"]]
            if not labs or any(not cmpx.close(t["fs"], v) for t in labs):
                fail(o, "tick font sizes %r, expected %r" % (sorted(set(t["fs"] for t in labs)), v))
        elif o == "titlefs":
            if any(not cmpx.close(a["title_fs"], v) for a in axes):
                fail(o, "title font sizes %r, expected %r" % ([a["title_fs"] for a in axes], v))
        elif o in ("gc", "gs", "gw"):
            if "nogrid" in opts:
                continue            # no grid to style (judged under -nogrid)
            for a in axes:
                g = a["grid"]
                if o == "gc":
                    ok = g["color"] == COLORS[v]
                elif o == "gs":
                    ok = g["ls"] == v
                else:
                    ok = g["lw"] is not None and cmpx.close(g["lw"], v)
                if not (g["x_visible"] and ok):
                    fail(o, "grid %r, expected %s=%r" % (g, o, v))
                    break
        elif o == "nogrid":
            if any(a["grid"]["x_visible"] or a["grid"]["y_visible"] for a in axes):
                fail(o, "grid lines are visible")
        elif o == "sp":
            ideal = [ln for ln in main["lines"] if ln["label"] == "ideal"]
            if not ideal or any(y != 0 for y in ideal[0]["y"]):
                fail(o, "no 'ideal' line at the perfect score 0 (lines %r)" % [ln["label"] for ln in main["lines"]])
        elif o == "aspect":
            if any(a["aspect"] == "auto" or not cmpx.close(float(a["aspect"]), v) for a in axes):
                fail(o, "aspect %r, expected %r on every axes" % ([a["aspect"] for a in axes], v))
        elif o == "fs":
            if not (cmpx.close(dump["size"][0], v[0]) and cmpx.close(dump["size"][1], v[1])):
                fail(o, "figure size %r inches, expected %r" % (dump["size"], v))
        elif o in ("left", "right", "top", "bottom"):
            if not cmpx.close(dump["subplotpars"][o], v):
                fail(o, "subplot parameter %s=%r, expected %r" % (o, dump["subplotpars"][o], v))
        elif o == "nomargin":
            sp = dump["subplotpars"]
            if not (sp["left"] == 0 and sp["right"] == 1 and sp["bottom"] == 0 and sp["top"] == 1):
                fail(o, "subplot parameters %r" % sp)
        elif o == "a":
            n_pts = sum(1 for ln in data_lines for y in ln["y"] if y == y)
            texts = [t for t in main["texts"]]
            if kind == "line" and len(texts) != n_pts:
                fail(o, "%d annotation texts for %d finite points" % (len(texts), n_pts))
        elif o == "afs":
            if any(not cmpx.close(t["fs"], v) for t in main["texts"]) or not main["texts"]:
                fail(o, "annotation font sizes %r, expected %r" % (sorted(set(t["fs"] for t in main["texts"])), v))
    # ---- independence: dropping one purely cosmetic option leaves every other observable unchanged ----
    cosmetic = sorted(o for o in opts if o in PURE_STYLE)
    if cosmetic and case["ext"] == "png":
        o = cosmetic[len(opts) % len(cosmetic)]
        opts_b = dict((k, v) for k, v in opts.items() if k != o)
        r2 = drive.run(list(paths) + base + render(opts_b) + ["-f", out])
        ctx.evals += 1
        if r2.exc is None and r2.exit in (None, 0):
            dump_b = figdump.dump_current()
            fa, fb = frame(dump, o), frame(dump_b, o)
            if fa != fb:
                diff = [k for k in fa if fa[k] != fb.get(k)]
                ctx.fail("C17/independent/-" + o, sub, "argv: %s: removing -%s changed other properties of the figure: %s" % (" ".join(map(str, short)), o, "; ".join("%s: %r -> %r" % (k, fb.get(k), fa[k]) for k in diff[:3])))
        r = drive.run(args)   # restore the file of the full command for the checks below
    # ---- the file ----
    if not os.path.exists(out) or os.path.getsize(out) == 0:
        ctx.fail("C17/file/missing", sub, "argv: %s: no output file" % " ".join(map(str, short)))
        return
    head = open(out, "rb").read(8)
    if not head.startswith(MAGIC[case["ext"]]):
        ctx.fail("C17/file/format", sub, "file .%s starts with %r" % (case["ext"], head))
    if case["ext"] == "png":
        w, h, dpi = png_info(out)
        want_dpi = opts.get("dpi", 100)
        if dpi is None or abs(dpi - want_dpi) > 0.6:
            ctx.fail("C17/applied/-dpi", sub, "argv: %s: PNG dpi metadata %r, expected %r" % (" ".join(map(str, short)), dpi, want_dpi))
        if any(k in opts for k in ("left", "right", "top", "bottom")):
            ew, eh = dump["size"][0] * want_dpi, dump["size"][1] * want_dpi
            if abs(w - ew) > 1.5 or abs(h - eh) > 1.5:
                ctx.fail("C17/file/pixel-size", sub, "PNG is %dx%d pixels, figure %r in x %r dpi" % (w, h, dump["size"], want_dpi))


# ---- line-style options on every kind of plot that draws one labelled series per input ---------------------
STYLE_KINDS = {
    # name: (arguments, the series are drawn with a line (so -ls applies))
    "obsfcst": (["-m", "obsfcst"], True),
    "obsfcst-time": (["-m", "obsfcst", "-x", "time"], True),
    "qq": (["-m", "qq"], True),
    "scatter": (["-m", "scatter"], False),
    "error": (["-m", "error"], False),
    "taylor": (["-m", "taylor"], False),
    "performance": (["-m", "performance", "-r", "1"], False),
    "reliability": (["-m", "reliability", "-r", "1"], True),
    "freq": (["-m", "freq", "-r", "0,1,2"], True),
    "roc": (["-m", "roc", "-r", "1"], True),
    "timeseries": (["-m", "timeseries"], True),
    "spreadskill": (["-m", "spreadskill"], True),
    "marginal": (["-m", "marginal", "-r", "0,1,2"], True),
    "mae-time": (["-m", "mae", "-x", "time"], True),
    "corr-location": (["-m", "corr", "-x", "location"], False),
    "ets-threshold": (["-m", "ets", "-x", "threshold", "-r", "0,1,2"], True),
    "rmse-leadtime": (["-m", "rmse", "-x", "leadtime"], True),
    "obs-hist": (["-m", "obs", "-hist", "-r", "-5,-2,0,2,5"], True),
    "fcst-sort": (["-m", "fcst", "-sort"], True),
    "economicvalue": (["-m", "economicvalue", "-r", "1"], True),
    "droc": (["-m", "droc", "-r", "1"], True),
    "murphy": (["-m", "murphy", "-r", "1"], True),
    "bsdecomp": (["-m", "bsdecomp", "-r", "1"], False),
    "invreliability": (["-m", "invreliability", "-q", "0.5"], True),
}


def styles_strategy(tier):
    @st.composite
    def s(draw):
        kind = draw(st.sampled_from(sorted(STYLE_KINDS)))
        names = draw(st.lists(st.sampled_from(["lc", "ls", "lw", "ma", "ms"]), min_size=1, max_size=5, unique=True))
        opts = {}
        for nm in names:
            opts[nm] = draw(OPTIONS[nm][1])
        if draw(st.sampled_from([False, False, True])):
            opts["leg"] = draw(OPTIONS["leg"][1])
        return {"style_kind": kind, "shape": draw(st.sampled_from(["full2", "full3", "full2-nomissing"])), "opts": opts}
    return s()


def check_styles(case, ctx):
    from .. import drive, figdump, mat
    if "style_kind" not in case:
        return check_figure(case, ctx)
    kind, opts = case["style_kind"], dict(case["opts"])
    base, has_line = STYLE_KINDS[kind]
    key = (case["shape"],)
    if key not in _files or not os.path.exists(_files[key][0]):
        d = os.path.join(ctx.scratch, "files_" + case["shape"])
        os.makedirs(d, exist_ok=True)
        _files[key] = mat.write_files(fixed.get(case["shape"]), d, "text")[0]
    paths = _files[key]
    n_in = len(paths)
    if "leg" in opts:
        opts["leg"] = list(opts["leg"])[:n_in]
    args = list(paths) + base + render(opts)
    r = drive.run(args)
    _runs[0] += 1
    ctx.evals += 1
    short = [os.path.basename(a) if os.sep in str(a) else a for a in args]
    ctx.label("style-kind=" + kind)
    if r.exc is not None:
        ctx.fail("C17/exception/%s" % r.exc_key, case, "argv: %s\n%s" % (" ".join(map(str, short)), r.tb[-600:]))
        drive.close_figures()
        return
    if r.exit not in (None, 0):
        ctx.fail("C17/exit", case, "argv: %s: %s" % (" ".join(map(str, short)), " | ".join(r.error_lines())))
        return
    dump = figdump.dump_current()
    if _runs[0] % 20 == 0:
        drive.close_figures()
    axes = [a for a in dump["axes"] if not a["is_colorbar"]]
    names = [x.replace("_", " ") for x in opts["leg"]] if "leg" in opts else [os.path.basename(p) for p in paths]
    if any(len(v) >= 2 and len(set(map(str, v))) >= 2 for k, v in opts.items() if k != "leg"):
        ctx.nt((kind, case["shape"], opts))
        ctx.label("nontrivial")
        ctx.sample({"argv": short})
    attr = {"lc": "color", "ls": "ls", "lw": "lw", "ma": "marker", "ms": "ms"}
    for ai, a in enumerate(axes[:1]):
        lines = [ln for ln in a["lines"] if ln["label"] in names]
        if [ln["label"] for ln in lines] != names:
            ctx.fail("C17/styles/series/" + kind, case, "argv: %s: labelled series %r, expected one per input %r" % (" ".join(map(str, short)), [ln["label"] for ln in lines], names))
            return
        for o, v in opts.items():
            if o == "leg" or (o == "ls" and not has_line):
                continue
            for f, ln in enumerate(lines):
                want = v[f % len(v)]
                got = ln[attr[o]]
                if o == "lc":
                    ok = all(abs(x - y) < 0.01 for x, y in zip(got, COLORS[want]))
                elif o in ("ls", "ma"):
                    ok = got == want
                else:
                    ok = cmpx.close(got, want)
                if not ok:
                    ctx.fail("C17/applied/-" + o, case, "argv: %s: series %d (%s) has %s=%r, expected %r (cycling %r)" % (" ".join(map(str, short)), f, ln["label"], attr[o], got, want, v))
                    break


def _values_of(strategy):
    w = getattr(strategy, "wrapped_strategy", strategy)
    if hasattr(w, "elements"):
        return list(w.elements)
    if hasattr(w, "value"):
        return [w.value]
    raise TypeError("cannot enumerate %r" % (strategy,))


def single_items(tier):
    """Every kind of figure x every option it is generated for x every value of that option, one option at a time
    (plus the option it needs: tick labels with their ticks, -afs with -a)."""
    items = []
    for kind in sorted(set(KINDS)):
        for opt in sorted(OPTIONS):
            kinds, strat = OPTIONS[opt]
            if kind not in kinds:
                continue
            for val in _values_of(strat):
                opts = {opt: val}
                if opt == "xticklabels":
                    opts["xticks"] = [1.0, 12.0, 24.0] if len(val) == 3 else [6.0, 18.0]
                if opt == "yticklabels":
                    opts["yticks"] = [0.5, 1.0, 2.0] if len(val) == 3 else [1.0, 4.0]
                if opt == "afs":
                    opts["a"] = True
                items.append({"kind": kind, "shape": "full3" if opt in ("lc", "ls", "lw", "ma", "ms", "leg") else "full2", "opts": opts, "ext": "png"})
    return items


# ---- -a / -af: what the annotations say -------------------------------------------------------
AF_FIELDS = ["score", "key", "lat", "lon", "elev", "location"]


def ann_strategy(tier):
    @st.composite
    def s(draw):
        kind = draw(st.sampled_from(["line", "line", "map", "obsfcst"]))
        axis = draw(st.sampled_from(["location", "lat", "lon", "elev", "leadtime", "time"])) if kind != "map" else None
        loc_like = kind == "map" or axis in ("location", "lat", "lon", "elev")
        pool = AF_FIELDS if loc_like else ["score", "key"]
        af = draw(st.one_of(st.none(), st.lists(st.sampled_from(pool), min_size=1, max_size=4, unique=True)))
        return {"ann_kind": kind, "axis": axis, "af": af, "shape": draw(st.sampled_from(["full2", "full3", "full2-nomissing"]))}
    return s()


def check_annotations(case, ctx):
    """-a puts one text at every drawn point; -af says which fields it shows ('%g ' per field, in the order given;
    'score key' without -af). lat / lon / elev / location are those of the point's own location."""
    from .. import drive, figdump, mat
    if "ann_kind" not in case:
        return check_figure(case, ctx)
    kind, axis, af = case["ann_kind"], case["axis"], case["af"]
    key = (case["shape"],)
    spec = fixed.get(case["shape"])
    if key not in _files or not os.path.exists(_files[key][0]):
        d = os.path.join(ctx.scratch, "files_" + case["shape"])
        os.makedirs(d, exist_ok=True)
        _files[key] = mat.write_files(spec, d, "text")[0]
    paths = _files[key]
    base = {"line": ["-m", "mae", "-x", axis], "map": ["-m", "mae", "-type", "map"], "obsfcst": ["-m", "obsfcst", "-x", axis]}[kind]
    args = list(paths) + base + ["-a"] + (["-af", ",".join(af)] if af else [])
    r = drive.run(args)
    _runs[0] += 1
    ctx.evals += 1
    short = [os.path.basename(a) if os.sep in str(a) else a for a in args]
    ctx.label("annotations/" + kind)
    if r.exc is not None:
        ctx.fail("C17/exception/%s" % r.exc_key, case, "argv: %s\n%s" % (" ".join(map(str, short)), r.tb[-600:]))
        drive.close_figures()
        return
    if r.exit not in (None, 0):
        ctx.fail("C17/exit", case, "argv: %s: %s" % (" ".join(map(str, short)), " | ".join(r.error_lines())))
        return
    dump = figdump.dump_current()
    if _runs[0] % 20 == 0:
        drive.close_figures()
    axes = [a for a in dump["axes"] if not a["is_colorbar"]]
    locs = sorted(spec["locs"], key=lambda l: l["id"])
    fields = af if af else ["score", "key"]
    if af and len(af) >= 2:
        ctx.nt(("annotations", kind, axis, af, case["shape"]))
        ctx.label("nontrivial")
        ctx.sample({"argv": short})

    def fail(msg):
        ctx.fail("C17/applied/-af" if af else "C17/applied/-a", case, "argv: %s: %s" % (" ".join(map(str, short)), msg))

    def loc_value(f, i):
        return {"lat": locs[i]["lat"], "lon": locs[i]["lon"], "elev": locs[i]["elev"], "location": locs[i]["id"]}[f]

    def text_of(vals):
        if af:
            return "".join("%g " % v for v in vals)
        return "%g %g" % tuple(vals)

    if kind in ("line", "obsfcst"):
        a = axes[0]
        loc_like = axis in ("location", "lat", "lon", "elev")
        expected = []
        for ln in a["lines"]:
            if ln["label"] in ("ideal", "_nolegend_") or ln["label"].startswith("_") or len(ln["x"]) != (len(locs) if loc_like else len(ln["x"])):
                continue
            for i, (x, y) in enumerate(zip(ln["x"], ln["y"])):
                if x != x or y != y:
                    continue
                vals = [y if f == "score" else x if f == "key" else loc_value(f, i) for f in fields]
                expected.append((round(x, 6), round(y, 6), text_of(vals)))
        got = [(round(t["x"], 6), round(t["y"], 6), t["text"]) for t in a["texts"]]
        if sorted(got) != sorted(expected):
            miss = [e for e in expected if e not in got][:3]
            extra = [g for g in got if g not in expected][:3]
            fail("annotation texts differ from the fields asked for (%r): expected but absent %r, present but unexpected %r" % (fields, miss, extra))
        return
    # map: one axes per input; a text at (lon, lat) of every location that has a score
    for a in axes:
        if not a["texts"]:
            fail("no annotation on a map axes")
            return
        for t in a["texts"]:
            cand = [i for i, l in enumerate(locs) if cmpx.close(l["lon"], t["x"], 1e-9) and cmpx.close(l["lat"], t["y"], 1e-9)]
            if len(cand) != 1:
                fail("annotation %r at (%r, %r) is not at a location of the dataset" % (t["text"], t["x"], t["y"]))
                return
            i = cand[0]
            toks = t["text"].split()
            if len(toks) != len(fields):
                fail("annotation %r has %d fields, %d asked for (%r)" % (t["text"], len(toks), len(fields), fields))
                return
            for f, tok in zip(fields, toks):
                if f == "score":
                    continue
                want = "%g" % (locs[i]["id"] if f == "key" else loc_value(f, i))
                if tok != want:
                    fail("location %d: field %r shown as %s, the location's value is %s (annotation %r)" % (locs[i]["id"], f, tok, want, t["text"]))
                    return


def campaigns(tier):
    return [
        Enum("single-options", single_items, check_figure, "every kind of figure x every option generated for it x every value, one option at a time"),
        Hyp("figures", strategy, check_figure, quick=560, thorough=40000, budget_quick=75, budget_thorough=2400),
        Hyp("styles", styles_strategy, check_styles, quick=480, thorough=12000, budget_quick=40, budget_thorough=1200),
        Hyp("annotations", ann_strategy, check_annotations, quick=320, thorough=8000, budget_quick=30, budget_thorough=900),
    ]
