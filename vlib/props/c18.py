"""C18 - Query results are independent of query history and repeatable."""
import itertools
import os

from hypothesis import strategies as st

from .. import cmpx, gen, model
from ..runner import Custom, Enum, Hyp

ID = "C18"
TITLE = "Query results are independent of query history and repeatable"
RULE = ("Histories of get_scores requests (fields from a menu of single/multiple fields, any input, axes incl. the 3D "
        "'all' axis, any slice) on one long-lived Data object over generated datasets with partially missing data "
        "(optionally -obsrange, climatology). After every step: (fresh) the result equals the same request on a "
        "freshly built Data over fresh copies of the inputs; (earlier) every array returned earlier still equals the "
        "snapshot taken when it was returned; (inputs) the input objects' arrays are unmodified. Exhaustive: all "
        "sequences of length <=3 over a 12-request menu on 3 fixed datasets; random: histories of up to 12 (quick) / "
        "30 (thorough) steps; (near-collisions) pairs of requests that differ in exactly one component (ensemble member, "
        "stored or ensemble-derived threshold / quantile level, field order, field, input, slice, axis) issued A, B, A, B on "
        "one object; (metric-history) sequences of metric computations on one object against fresh objects. (repeat) the same command line run twice in one process prints identical output. "
        "Non-trivial: the history contains a 3D multi-field request followed by a request on a subset of those fields, "
        "or the same request twice with another in between; distinct by hash of (dataset, history).")
ASSUMPTIONS = [
    "in-memory inputs keep their arrays as attributes (as verif.input.Text does), so in-place modification is observable",
    "datasets with discrete-mass metadata (x0/x1) and PIT are generated in a separate campaign because PIT randomisation is a listed finding",
]

AXES = ["all", "no", "time", "leadtime", "location", "month", "leadtimeday"]


def history_strategy(tier):
    steps = 12 if tier == "quick" else 30

    @st.composite
    def s(draw):
        spec = draw(gen.dataset(max_inputs=3, clim="maybe", flavor="mix", core_max=3, extra_max=1, allow_drop=False,
                                max_members=2, allow_all_missing=False, own_obs=True))
        opts = {}
        if draw(st.sampled_from([False, False, True])):
            vals = [v for d in spec["inputs"] if d.get("obs") for pl in d["obs"] for row in pl for v in row if v is not None] or [0.0]
            a = draw(st.sampled_from(sorted(set(vals))))
            b = draw(st.sampled_from(sorted(set(vals))))
            opts["obs_range"] = [min(a, b), max(a, b)]
        req = st.tuples(st.integers(0, 15), st.integers(0, 3), st.sampled_from(AXES + ["all", "all"]), st.integers(0, 5))
        hist = draw(st.lists(req, min_size=2, max_size=steps))
        return {"spec": spec, "opts": opts, "history": [list(r) for r in hist]}
    return s()


def pitx_strategy(tier):
    @st.composite
    def s(draw):
        spec = draw(gen.dataset(max_inputs=2, clim=False, flavor="prob", core_max=2, extra_max=1, allow_drop=False,
                                allow_obsless=False, allow_all_missing=False))
        vals = sorted(set(v for d in spec["inputs"] if d.get("obs") for pl in d["obs"] for row in pl for v in row if v is not None)) or [0.0]
        which = draw(st.sampled_from(["x0", "x1", "both"]))
        if which in ("x0", "both"):
            spec["var"]["x0"] = draw(st.sampled_from(vals))
        if which in ("x1", "both"):
            spec["var"]["x1"] = draw(st.sampled_from(vals))
        req = st.tuples(st.sampled_from([0, 1, 2, 4, 4, 4]), st.integers(0, 1), st.sampled_from(AXES), st.integers(0, 5))
        hist = draw(st.lists(req, min_size=2, max_size=6))
        return {"spec": spec, "opts": {}, "history": [list(r) for r in hist]}
    return s()


def near_strategy(tier):
    """Request pairs that differ in exactly ONE component (member index, threshold, quantile level, field order, input,
    slice, axis) issued as A, B, A on one object: what a cache key that omits that component would confuse."""
    @st.composite
    def s(draw):
        spec = draw(gen.dataset(max_inputs=3, min_inputs=1, clim=draw(st.sampled_from([False, True, "maybe"])),
                                flavor=draw(st.sampled_from(["full", "full", "prob", "ens", "det"])),
                                core_max=3, extra_max=1, allow_drop=False, max_members=3, allow_all_missing=False, own_obs=True,
                                per_input_layout=draw(st.booleans())))
        allin = spec["inputs"] + ([spec["clim"]] if spec.get("clim") else [])

        def common(key):
            out = None
            for d in allin:
                s_ = set(d.get(key) or [])
                out = s_ if out is None else out & s_
            return sorted(out or [])
        th, qs = common("thresholds"), common("quantiles")
        mem = min(d["members"] for d in allin) if all(d.get("ens") is not None for d in allin) else 0
        kinds = ["order", "input", "slice", "axis", "field"]
        if len(th) >= 2:
            kinds += ["threshold", "threshold"]
        if len(qs) >= 2:
            kinds += ["quantile", "quantile"]
        if mem >= 2:
            kinds += ["member", "member", "member"]
        if mem >= 1:
            kinds += ["derived-threshold", "derived-quantile"]
        # a whole-array request for [obs|fcst, X] followed by a request for X alone (X any other field)
        others = []
        if th:
            others.append(("thr", th[0]))
        if qs:
            others.append(("q", qs[-1]))
        if mem >= 1:
            others += [("ens", mem - 1), ("thr", 0.625)]
        if all(d.get("pit") is not None for d in allin) and not spec.get("clim"):
            others.append(("pit",))
        onames = None
        for d in allin:
            s_ = set((d.get("other") or {}).keys())
            onames = s_ if onames is None else onames & s_
        for nm in sorted(onames or []):
            others.append(("other", nm))
        if others:
            kinds += ["subset"] * 4
        kind = draw(st.sampled_from(kinds))
        with_obs = draw(st.booleans())
        pre = [("obs",)] if with_obs else []
        a1, a2 = draw(st.sampled_from(AXES)), draw(st.sampled_from(AXES))
        i1, i2 = draw(st.integers(0, 3)), draw(st.integers(0, 3))
        k1, k2 = draw(st.integers(0, 5)), draw(st.integers(0, 5))
        base = draw(st.sampled_from([[("fcst",)], [("obs",)], [("obs",), ("fcst",)]]))
        if kind == "threshold":
            t = draw(st.lists(st.sampled_from(th), min_size=2, max_size=2, unique=True))
            menu, h = [pre + [("thr", t[0])], pre + [("thr", t[1])]], [[0, i1, a1, k1], [1, i1, a1, k1]]
        elif kind == "quantile":
            q = draw(st.lists(st.sampled_from(qs), min_size=2, max_size=2, unique=True))
            menu, h = [pre + [("q", q[0])], pre + [("q", q[1])]], [[0, i1, a1, k1], [1, i1, a1, k1]]
        elif kind == "member":
            m = draw(st.lists(st.integers(0, mem - 1), min_size=2, max_size=2, unique=True))
            menu, h = [pre + [("ens", m[0])], pre + [("ens", m[1])]], [[0, i1, a1, k1], [1, i1, a1, k1]]
        elif kind == "derived-threshold":
            t = draw(st.lists(st.sampled_from([0.625, -0.625, 1.375, 0.125]), min_size=2, max_size=2, unique=True))
            menu, h = [[("obs",), ("thr", t[0])], [("obs",), ("thr", t[1])]], [[0, i1, a1, k1], [1, i1, a1, k1]]
        elif kind == "derived-quantile":
            q = draw(st.lists(st.sampled_from([0.3, 0.7, 0.45]), min_size=2, max_size=2, unique=True))
            menu, h = [[("q", q[0])], [("q", q[1])]], [[0, i1, a1, k1], [1, i1, a1, k1]]
        elif kind == "subset":
            X = draw(st.sampled_from(others))
            first = draw(st.sampled_from([("obs",), ("fcst",)]))
            big = [first, X] if draw(st.booleans()) else [X, first]
            menu, h = [big, [X]], [[0, i1, "all", 0], [1, i1, a1, k1]]
        elif kind == "order":
            menu, h = [[("obs",), ("fcst",)], [("fcst",), ("obs",)]], [[0, i1, a1, k1], [1, i1, a1, k1]]
        elif kind == "field":
            menu, h = [[("obs",)], [("fcst",)]], [[0, i1, a1, k1], [1, i1, a1, k1]]
        elif kind == "input":
            menu, h = [base], [[0, i1, a1, k1], [0, i2, a1, k1]]
        elif kind == "slice":
            menu, h = [base], [[0, i1, a1, k1], [0, i1, a1, k2]]
        else:
            menu, h = [base], [[0, i1, a1, k1], [0, i1, a2, k1]]
        hist = [h[0], h[1], h[0], h[1]]
        opts = {}
        if draw(st.sampled_from([False, False, False, True])):
            vals = sorted(set(v for d in spec["inputs"] if d.get("obs") for pl in d["obs"] for row in pl for v in row if v is not None)) or [0.0]
            a, b = draw(st.sampled_from(vals)), draw(st.sampled_from(vals))
            opts["obs_range"] = [min(a, b), max(a, b)]
        return {"spec": spec, "opts": opts, "menu": [[list(f) for f in F] for F in menu], "history": hist, "near": kind}
    return s()


def run_near(case, ctx):
    if "near" in case:
        ctx.label("near/" + case["near"])
    case = dict(case)
    if case.get("menu"):
        case["menu"] = [[tuple(f) for f in F] for F in case["menu"]]
    return run_history(case, ctx)


# ---- metric computations as requests ----------------------------------------------------------
METRIC_POOL = ["bs", "bsrel", "bsres", "bss", "ign0", "spherical", "marginalratio", "bsunc", "ets", "hit", "mae", "corr", "quantilescore", "pit",
               "obs:iqr", "fcst:iqr", "obs:median", "fcst:0.9", "mae:iqr", "obs:range", "fcst:std", "rmse:median", "obs:max", "rankcorr", "kendallcorr"]
# diagrams drawn (Output._plot_core) on the same long-lived object: they query it like any other client and must leave it as they found it
FIG_THR = {"reliability": "Reliability", "invreliability": "InvReliability", "discrimination": "Discrimination", "roc": "Roc", "droc": "DRoc",
           "droc0": "DRoc0", "performance": "Performance", "economicvalue": "EconomicValue", "igncontrib": "IgnContrib", "bsdecomp": "BsDecomp",
           "murphy": "Murphy", "marginal": "Marginal", "freq": "Freq", "cond": "Cond"}
FIG_PLAIN = {"obsfcst": "ObsFcst", "qq": "QQ", "scatter": "Scatter", "taylor": "Taylor", "error": "Error", "against": "Against", "timeseries": "TimeSeries",
             "pithist": "PitHist", "spreadskill": "SpreadSkill", "meteo": "Meteo", "change": "Change"}
FIG_POOL = ["fig:" + k for k in list(FIG_THR) + list(FIG_PLAIN)]


def draw_figure(data, name, case):
    """Draw diagram `name` on `data` the way the driver does (no file is written). -> False when not applicable."""
    import numpy as np
    import matplotlib.pyplot as mpl
    import verif.output
    import verif.axis
    mpl.close("all")
    if name in FIG_THR:
        if not case["thresholds"]:
            return False
        pl = getattr(verif.output, FIG_THR[name])()
        if name in ("freq", "cond", "marginal", "bsdecomp"):
            pl.thresholds = np.array(case["thresholds"], float)
        else:
            if case["bin_type"] in model.WITHIN_TYPES and name in ("droc", "droc0", "performance"):
                return False
            pl.thresholds = np.array(case["thresholds"][:2] if case["bin_type"] in model.WITHIN_TYPES else case["thresholds"][:1], float)
        pl.bin_type = case["bin_type"]
    else:
        pl = getattr(verif.output, FIG_PLAIN[name])()
        if name in ("spreadskill", "meteo") and case["quantiles"]:
            pl.quantiles = np.array(case["quantiles"], float)
    if pl.supports_x and name not in ("taylor", "error", "performance"):
        pl.axis = verif.axis.get(case["axis"])
    pl.filename = None
    try:
        pl._plot_core(data)
    except SystemExit:
        return False
    finally:
        mpl.close("all")
    return True


def metric_strategy(tier):
    """A sequence of metric computations (what -m does) on one Data object; each must give what it gives on a fresh
    object, whatever was computed before (e.g. two Brier-type scores of the same within-type event)."""
    from .. import mrun

    @st.composite
    def s(draw):
        spec = draw(gen.dataset(max_inputs=2, clim=False, flavor=draw(st.sampled_from(["prob", "prob", "full"])), core_max=3, extra_max=1,
                                allow_drop=False, allow_obsless=False, max_members=2, allow_all_missing=False, per_input_layout=False))
        th = sorted(spec["inputs"][0].get("thresholds") or [])
        qs = sorted(spec["inputs"][0].get("quantiles") or [])
        b = draw(st.sampled_from(["within", "within=", "=within", "=within=", "above", "below="]))
        if b in model.WITHIN_TYPES and len(th) < 2:
            b = "above"
        T = th[:2] if b in model.WITHIN_TYPES else th[:1]
        names = draw(st.lists(st.sampled_from(METRIC_POOL + FIG_POOL), min_size=2, max_size=4))
        return {"spec": spec, "metrics": names, "bin_type": b, "thresholds": T, "quantiles": qs[:1],
                "axis": draw(st.sampled_from(["no", "leadtime", "location", "time"]))}
    return s()


def check_metrics(case, ctx):
    import numpy as np
    from .. import mat, mrun
    if "metrics" not in case:
        return run_near(case, ctx)
    spec = case["spec"]
    ds = model.DS(spec)
    if ds.empty:
        return
    data = mat.make_data(spec)
    sub = dict(case)
    done = []
    import verif.axis
    probes = [[("obs",)], [("fcst",)], [("obs",), ("fcst",)]]
    menu = gen.common_menu(spec)
    wide = probes + [F for F in menu if F not in probes]
    if case["thresholds"]:
        wide.append([("obs",), ("thr", case["thresholds"][0])])
        wide.append([("obs",), ("fcst",), ("thr", case["thresholds"][0])])
    handed = []   # (arrays handed out, copies taken then, description)
    vax = mat.vaxis(case["axis"])

    def probe_all(which, after):
        """every probe request on the long-lived object against a fresh object; -> False after reporting a difference"""
        fresh_data = mat.make_data(spec)
        for F in which:
            vF = [mat.vfield(f) for f in F]
            for i in range(len(spec["inputs"])):
                # ("no", None) is how the diagrams ask for the pooled cases: the same request as ("no", 0), but its own cache entry
                for ax_name, ax, nk in ((case["axis"], vax, ds.n_slices(case["axis"])), ("all", verif.axis.All(), 1), ("no", verif.axis.No(), 1)):
                    for k in range(nk):
                        kk = None if ax_name in ("all", "no") else k
                        try:
                            a = data.get_scores(vF, i, ax, kk)
                            b = fresh_data.get_scores(vF, i, ax, kk)
                        except SystemExit:
                            continue
                        ctx.evals += 1
                        if any(not cmpx.arrays_equal(x, y) for x, y in zip(a, b)):
                            ctx.fail("C18/fresh/after-metric", dict(sub, metrics=case["metrics"][:step + 1]),
                                     "after computing %r, request %r (input %d, %s slice %r) returns %r, a fresh object %r"
                                     % (after, F, i, ax_name, kk, [np.asarray(x).ravel()[:6].tolist() for x in a], [np.asarray(x).ravel()[:6].tolist() for x in b]))
                            return False
                        if len(handed) < 400:
                            handed.append((list(a), [np.array(x, copy=True) for x in a], (F, i, ax_name, kk)))
        return True

    def earlier_ok(after):
        for arrs, copies, what in handed:
            if any(not cmpx.arrays_equal(x, y) for x, y in zip(arrs, copies)):
                ctx.fail("C18/earlier/after-metric", dict(sub, metrics=case["metrics"][:step + 1]),
                         "arrays handed out earlier for %r were altered by computing %r" % (what, after))
                return False
        return True

    for step, name in enumerate(case["metrics"]):
        if name.startswith("fig:"):
            if not handed:
                if not probe_all(wide, done):
                    return
            try:
                ok = draw_figure(data, name[4:], case)
            except Exception:
                ctx.label("figure-step/exception (C19's business)")
                return
            if not ok:
                continue
            ctx.evals += 1
            ctx.label("figure-step/" + name[4:])
            ctx.nt(("figure-history", case["metrics"][:step + 1], case["bin_type"], case["thresholds"], ds.times, [d["fcst"] for d in spec["inputs"]]))
            done.append(name)
            if not earlier_ok(done) or not probe_all(wide, done):
                return
            continue
        agg = None
        if ":" in name:
            name, agg = name.split(":")
        kind = mrun.kind_of(name)
        kw = {"agg": agg} if agg else {}
        if kind in ("pthr", "thr"):
            if not case["thresholds"]:
                continue
            kw = dict(kw, thresholds=case["thresholds"], bin_type=case["bin_type"])
        elif kind == "q1":
            if not case["quantiles"]:
                continue
            kw = dict(kw, thresholds=case["quantiles"])
        elif kind == "pit" and spec["inputs"][0].get("pit") is None:
            continue
        try:
            got = mrun.scores(data, name, case["axis"], **kw)
            fresh = mrun.scores(mat.make_data(spec), name, case["axis"], **kw)
        except SystemExit:
            continue
        ctx.evals += 1
        ctx.label("metric-step/" + name)
        if done and case["bin_type"] in model.WITHIN_TYPES:
            ctx.label("metric-history/within-type-after-another-metric")
            ctx.nt(("metric-history", case["metrics"], case["bin_type"], case["thresholds"], ds.times, [d["fcst"] for d in spec["inputs"]]))
        if not cmpx.arrays_equal(got, fresh):
            ctx.fail("C18/fresh/metric", dict(sub, metrics=case["metrics"][:step + 1]),
                     "-m %s (-b %s -r %r) computed after %r on the same object gives %r, on a fresh object %r"
                     % (name, case["bin_type"], case["thresholds"], done, np.asarray(got).ravel()[:6].tolist(), np.asarray(fresh).ravel()[:6].tolist()))
            return
        done.append(name if not agg else name + ":" + agg)
        # ... and the arrays the object hands out afterwards are what a fresh object hands out (same order, same values),
        # and the arrays it handed out before are untouched
        if not earlier_ok(done) or not probe_all(probes if step % 2 else wide, done):
            return


def resolve(spec, ds, menu, r):
    F = menu[r[0] % len(menu)]
    i = r[1] % len(spec["inputs"])
    axis = r[2]
    k = None if axis == "all" else r[3] % max(1, ds.n_slices(axis))
    return F, i, axis, k


def run_history(case, ctx, tag="hist", only_last=False):
    import numpy as np
    import verif.axis
    from .. import mat
    spec, opts = case["spec"], case.get("opts") or {}
    ds = model.DS(spec, opts)
    if ds.empty:
        ctx.label("empty")
        return
    menu = case.get("menu") or gen.common_menu(spec)
    ins, clim = mat.mem_inputs(spec)
    all_inputs = ins + ([clim] if clim is not None else [])
    snaps = [inp.snapshot() for inp in all_inputs]
    try:
        data = mat.make_data(spec, opts, inputs=(ins, clim))
    except SystemExit:
        return
    returned = []
    seen = []
    nontrivial = False
    for step, r in enumerate(case["history"]):
        F, i, axis, k = resolve(spec, ds, menu, r)
        vF = [mat.vfield(f) for f in F]
        vax = verif.axis.All() if axis == "all" else mat.vaxis(axis)
        key = (tuple(map(tuple, F)), i, axis, k)
        for (pk, pstep) in seen:
            if pk[2] == "all" and len(pk[0]) > 1 and set(key[0]) < set(pk[0]):
                nontrivial = True
            if pk == key and pstep < step - 1:
                nontrivial = True
        seen.append((key, step))
        got = data.get_scores(vF, i, vax, k)
        fresh = mat.make_data(spec, opts).get_scores(vF, i, vax, k)
        ctx.evals += 1
        sub = {"spec": spec, "opts": opts, "history": case["history"][:step + 1]}
        if case.get("menu"):
            sub["menu"] = case["menu"]
        if any(not cmpx.arrays_equal(a, b) for a, b in zip(got, fresh)):
            kind = "after-all-axis" if any(pk[2] == "all" for pk, _ in seen[:-1]) else "other"
            if ("pit",) in [tuple(f) for f in F] and (spec["var"].get("x0") is not None or spec["var"].get("x1") is not None):
                kind = "pit-randomized"
            ctx.fail("C18/fresh/" + kind, sub, "step %d request %r: long-lived object returned %r, a fresh object %r"
                     % (step, key, [np.asarray(a).ravel()[:8].tolist() for a in got], [np.asarray(a).ravel()[:8].tolist() for a in fresh]))
        for (arrs, copies, pkey, pstep) in returned:
            if any(not cmpx.arrays_equal(a, c) for a, c in zip(arrs, copies)):
                ctx.fail("C18/earlier", sub, "arrays returned at step %d for %r were altered by step %d (%r)" % (pstep, pkey, step, key))
                break
        returned.append((list(got), [np.array(a, copy=True) for a in got], key, step))
        for inp, snap in zip(all_inputs, snaps):
            which = inp.differs_from(snap)
            if which:
                ctx.fail("C18/inputs/" + which, sub, "input %s: attribute %s was modified in place by step %d (%r)" % (inp.fullname, which, step, key))
    if nontrivial:
        ctx.label("nontrivial")
        ctx.nt((spec["times"], [d["fcst"] for d in spec["inputs"]], [d["obs"] for d in spec["inputs"]], opts, case["history"]))
        ctx.sample({"opts": opts, "n_inputs": len(spec["inputs"]), "clim": bool(spec.get("clim")),
                    "history": [dict(zip(("fields", "input", "axis", "slice"), resolve(spec, ds, menu, r))) for r in case["history"]]})


# ---- exhaustive pass ---------------------------------------------------------------------
def fixed_specs():
    """Three hand-built datasets with partially missing data (deterministic constants)."""
    specs = []
    for variant in range(3):
        times = [946684800 + 86400 * d for d in range(3)]          # 2000-01-01..03
        leads = [0.0, 12.0, 24.0]
        locs = [{"id": 1, "lat": 10.0, "lon": 20.0, "elev": 5.0}, {"id": 7, "lat": -3.5, "lon": 100.25, "elev": 250.0}]
        n_in = 2 if variant < 2 else 3
        inputs = []
        for i in range(n_in):
            def cell(a, b, c, off):
                return ((a * 7 + b * 3 + c * 5 + off * 11 + variant) % 17 - 8) / 4.0
            obs = [[[None if (a + b + c + variant) % 5 == 0 else cell(a, b, c, 0) for c in range(2)] for b in range(3)] for a in range(3)]
            fcst = [[[None if (a * 2 + b + c + i + variant) % 4 == 0 else cell(a, b, c, i + 1) for c in range(2)] for b in range(3)] for a in range(3)]
            d = {"name": "f%d" % i, "ti": [0, 1, 2], "li": [0, 1, 2], "si": [0, 1], "obs": obs if not (variant == 1 and i == 1) else None, "fcst": fcst}
            d["other"] = {"aux": [[[None if (a + 2 * b + c + i) % 6 == 0 else cell(a, b, c, 5) for c in range(2)] for b in range(3)] for a in range(3)]}
            inputs.append(d)
        spec = {"times": times, "leadtimes": leads, "locs": locs, "var": {"name": "T", "units": "K", "x0": None, "x1": None},
                "inputs": inputs, "clim": None}
        specs.append(spec)
    return specs


EX_MENU = [[("obs",), ("fcst",)], [("obs",)], [("fcst",)], [("other", "aux")], [("obs",), ("other", "aux")], [("fcst",), ("obs",)]]
EX_REQS = [(0, 0, "all", 0), (0, 1, "all", 0), (1, 0, "all", 0), (2, 0, "all", 0), (4, 0, "all", 0), (3, 1, "all", 0),
           (0, 0, "no", 0), (1, 0, "no", 0), (2, 1, "no", 0), (3, 0, "time", 1), (1, 1, "leadtime", 2), (2, 0, "location", 1)]


def exhaustive_items(tier):
    items = []
    for si in range(3):
        for n in (1, 2, 3):
            for seq in itertools.product(range(len(EX_REQS)), repeat=n):
                items.append({"dataset": si, "seq": list(seq)})
    return items


_FIXED = []


def check_exhaustive(item, ctx):
    if "spec" in item:
        return run_history(item, ctx)
    if not _FIXED:
        _FIXED.extend(fixed_specs())
    spec = _FIXED[item["dataset"]]
    case = {"spec": spec, "opts": {}, "menu": EX_MENU, "history": [list(EX_REQS[j]) for j in item["seq"]]}
    run_history(case, ctx)


# ---- repeatability -----------------------------------------------------------------------
def repeat_strategy(tier):
    @st.composite
    def s(draw):
        pitx = draw(st.sampled_from([False, False, True]))
        spec = draw(gen.dataset(max_inputs=2, clim=False, flavor="prob" if pitx else draw(st.sampled_from(["det", "prob"])),
                                core_max=2, extra_max=1, allow_drop=False, allow_obsless=False, var_x=pitx, allow_all_missing=False))
        if pitx:
            vals = sorted(set(v for d in spec["inputs"] if d.get("obs") for pl in d["obs"] for row in pl for v in row if v is not None)) or [0.0]
            spec["var"]["x0"] = draw(st.sampled_from(vals))
            metric = draw(st.sampled_from(["pit", "pithistdev", "mae"]))
        elif spec["inputs"][0].get("pit") is not None:
            metric = draw(st.sampled_from(["pit", "bs", "mae", "ets", "corr"]))
        else:
            metric = draw(st.sampled_from(["mae", "rmse", "ets", "corr", "obs"]))
        return {"spec": spec, "metric": metric, "axis": draw(st.sampled_from(["no", "time", "leadtime", "location"])),
                "type": draw(st.sampled_from(["csv", "text"])), "kind": draw(st.sampled_from(["text", "netcdf"]))}
    return s()


_counter = [0]


def check_repeat(case, ctx):
    import numpy as np
    from .. import drive, mat
    spec = case["spec"]
    _counter[0] += 1
    d = os.path.join(ctx.scratch, "r%d" % _counter[0])
    os.makedirs(d)
    paths, _ = mat.write_files(spec, d, case["kind"])
    args = paths + ["-m", case["metric"], "-x", case["axis"], "-type", case["type"]]
    if case["metric"] in ("ets",):
        args += ["-r", "0.25"]
    if case["metric"] == "bs":
        args += ["-r", "%g" % spec["inputs"][0]["thresholds"][0]]
    np.random.seed(12345)
    r1 = drive.run(args)
    r2 = drive.run(args)
    ctx.evals += 1
    x = spec["var"].get("x0") is not None or spec["var"].get("x1") is not None
    uses_pit = case["metric"] in ("pit", "pithistdev")
    ctx.label("repeat/%s%s" % (case["metric"], "/x0x1" if x else ""))
    ctx.nt(("repeat", spec["times"], [dd["fcst"] for dd in spec["inputs"]], case["metric"], case["axis"], case["type"], case["kind"], spec["var"]))
    if r1.exc is not None or r2.exc is not None:
        ctx.label("exception")
        return
    if r1.stdout != r2.stdout:
        key = "C18/repeat/pit-randomized" if (x and uses_pit) else "C18/repeat"
        ctx.fail(key, dict(case), "the same command printed different output on its second run:\n%s\n---\n%s" % (r1.stdout[-300:], r2.stdout[-300:]))


# ---- the same invariants driven by Hypothesis' rule-based state machine ------------------------
def run_stateful(ctx, tier, seedval, n, t_end):
    """RuleBasedStateMachine: initialize draws the dataset, one rule issues a request; the invariants
    (fresh / earlier / inputs) run inside the rule through run_history on the history so far."""
    import time
    from hypothesis import seed as hseed
    from hypothesis.stateful import RuleBasedStateMachine, initialize, rule, run_state_machine_as_test
    from .. import runner

    steps = 12 if tier == "quick" else 30

    class Histories(RuleBasedStateMachine):
        def __init__(self):
            super(Histories, self).__init__()
            self.spec = None
            self.history = []

        @initialize(spec=gen.dataset(max_inputs=3, clim="maybe", flavor="mix", core_max=3, extra_max=1, allow_drop=False,
                                     max_members=2, allow_all_missing=False, own_obs=True))
        def build(self, spec):
            self.spec = spec
            self.history = []
            ctx.evals += 1

        @rule(r=st.tuples(st.integers(0, 15), st.integers(0, 3), st.sampled_from(AXES + ["all", "all"]), st.integers(0, 5)))
        def request(self, r):
            if time.time() > t_end:
                ctx.inconclusive += 1
                return
            self.history.append(list(r))
            # only the newest step needs judging: earlier prefixes were judged when they were the newest
            runner.guarded(lambda case, c: run_history(case, c, only_last=True), {"spec": self.spec, "opts": {}, "history": list(self.history)}, ctx, ID)

    Histories.TestCase.settings = runner.hyp_settings(n, [__import__("hypothesis").Phase.generate])
    run_state_machine_as_test(hseed(seedval)(Histories), settings=__import__("hypothesis").settings(
        runner.hyp_settings(n, [__import__("hypothesis").Phase.generate]), stateful_step_count=steps))


def campaigns(tier):
    return [
        Enum("exhaustive-len3", exhaustive_items, check_exhaustive, "all request sequences of length <=3 over a 12-request menu on 3 fixed datasets"),
        Custom("stateful-machine", run_stateful, run_history, quick=320, thorough=6000, budget_quick=40, budget_thorough=900),
        Hyp("history", history_strategy, run_history, quick=1600, thorough=30000, budget_quick=50, budget_thorough=1200),
        Hyp("near-collisions", near_strategy, run_near, quick=960, thorough=20000, budget_quick=40, budget_thorough=900),
        Hyp("metric-history", metric_strategy, check_metrics, quick=640, thorough=12000, budget_quick=40, budget_thorough=900),
        Hyp("history-pit-x0x1", pitx_strategy, run_history, quick=320, thorough=6000, budget_quick=40, budget_thorough=600),
        Hyp("repeat", repeat_strategy, check_repeat, quick=320, thorough=8000, budget_quick=50, budget_thorough=900),
    ]
