"""C19 - Documented metric/axis/output combinations never crash."""
import os

from hypothesis import strategies as st

from .. import fixed, gen, mrun
from ..runner import Enum, Hyp

ID = "C19"
TITLE = "Documented metric/axis/output combinations never crash"
RULE = ("The cross product (70 metrics + 28 diagrams + -hist/-sort) x (19 -x dimensions + default) x 8 output types x "
        "{explicit -r/-q lists, a single threshold / quantile, defaults} x bin types / aggregators, run through verif.driver.run on 11 hand-built dataset shapes "
        "(deterministic, probabilistic, ensemble, 1-3 inputs, single time / location / lead time, an all-missing location, "
        "no missing data; text and NetCDF files): quick = a stratified sample in which every metric, axis and type occurs "
        "repeatedly; thorough = the full product on rotating shapes plus Hypothesis-generated datasets; (drawn) the 34 figure kinds "
        "of C16, each with the arguments that diagram needs, on generated datasets and saved with -f. Oracle: the run "
        "returns normally (a non-empty file when -f is given) or stops with SystemExit(!=0) after an 'Error:' line; "
        "anything else is bucketed by exception type @ innermost repository frame. Every run is a distinct documented "
        "combination; distinct by (metric, axis, type, variant, shape).")
ASSUMPTIONS = [
    "cartopy map backgrounds (-maptype) are not installed and not exercised",
    "plots are rendered with the Agg backend at low dpi into a scratch file",
]

DIAGRAMS = ["pithist", "obsfcst", "timeseries", "meteo", "qq", "autocorr", "autocov", "fss", "cond", "against", "scatter", "change",
            "spreadskill", "taylor", "error", "freq", "roc", "droc", "droc0", "reliability", "discrimination", "performance",
            "invreliability", "murphy", "bsdecomp", "igncontrib", "economicvalue", "marginal"]
AXES = [None, "time", "leadtime", "year", "month", "week", "day", "timeofday", "dayofyear", "monthofyear", "dayofmonth", "location",
        "elev", "lat", "lon", "threshold", "leadtimeday", "no", "obs", "fcst"]
TYPES = ["plot", "text", "csv", "map", "rank", "maprank", "impact", "mapimpact"]
SHAPES = sorted(fixed.SHAPES.keys())
VARIANTS = ["explicit", "default", "explicit-b", "agg", "one"]
BINS = ["below", "below=", "above", "above=", "within", "=within", "within=", "=within="]
AGGS = ["median", "max", "count", "std", "0.9", "sum", "iqr", "range", "min", "variance", "meanabs", "absmean"]


# diagrams whose help does not list -r (pithist would take the values as histogram edges: a single edge is not a documented use)
NO_THRESHOLDS = ("pithist", "against", "change", "meteo", "timeseries", "autocorr", "autocov", "obsfcst", "qq", "scatter", "error")


def all_names():
    return list(mrun.ALL) + DIAGRAMS


def variant_args(name, variant, k, axis=None):
    """Extra argv for metric `name` under a variant; k picks bin type / aggregator."""
    args = []
    kind = None
    try:
        kind = mrun.kind_of(name)
    except KeyError:
        pass
    if variant in ("explicit", "explicit-b", "agg"):
        if kind in ("thr", "detr", "pthr") or name in ("cond", "freq", "spreadskill", "marginal", "roc", "droc", "droc0", "reliability", "discrimination",
                                                       "performance", "invreliability", "murphy", "bsdecomp", "igncontrib", "economicvalue", "fss", "taylor", "error"):
            args += ["-r", "0,1,2.5"]
        if kind in ("q1",):
            args += ["-q", "0.1,0.5,0.9" if name != "quantilecoverage" else "0.1,0.9"]
        if kind == "q2":
            args += ["-q", "0.1,0.9"]
        if name in ("obsfcst", "meteo", "timeseries"):
            args += ["-q", "0.1,0.9"]
        if axis in ("obs", "fcst") and "-r" not in args:
            args += ["-r", "-2.5,0,2.5,10"]
    if variant == "one":
        # exactly one threshold / quantile (some diagrams require it: droc, droc0, ...)
        if kind in ("thr", "detr", "pthr") or name in ("cond", "freq", "spreadskill", "marginal", "roc", "droc", "droc0", "reliability", "discrimination",
                                                       "performance", "invreliability", "murphy", "bsdecomp", "igncontrib", "economicvalue", "fss", "taylor", "error"):
            args += ["-r", ["1", "0", "2.5"][k % 3]]
        if kind == "q1":
            args += ["-q", ["0.5", "0.1", "0.9"][k % 3]]
        if kind == "q2":
            args += ["-q", "0.1,0.9"]
        if name in ("obsfcst", "meteo", "timeseries"):
            args += ["-q", "0.5"]
        if axis in ("obs", "fcst") and "-r" not in args and name not in NO_THRESHOLDS:
            args += ["-r", "0"]
    if variant.startswith("one-b:"):
        # exactly one threshold with each bin type (a within type has no event to form from one threshold: error message, not a crash)
        return variant_args(name, "one", k, axis) + ["-b", variant.split(":", 1)[1]]
    if variant == "explicit-b":
        args += ["-b", BINS[k % len(BINS)]]
    if variant == "agg":
        args += ["-agg", AGGS[k % len(AGGS)]]
    return args


def items(tier):
    out = []
    names = all_names()
    n = 0
    if tier == "thorough":
        for mi, name in enumerate(names):
            for ai, axis in enumerate(AXES):
                for ti, typ in enumerate(TYPES):
                    # text/csv are cheap: every dataset shape; figures: three rotating shapes
                    nshape = len(SHAPES) if typ in ("text", "csv") else 3
                    for si in range(nshape):
                        variant = VARIANTS[(mi + ai + ti + si) % len(VARIANTS)]
                        out.append({"shape": SHAPES[(mi * 7 + ai * 3 + ti + si * 4) % len(SHAPES)] if nshape < len(SHAPES) else SHAPES[si],
                                    "metric": name, "axis": axis, "type": typ, "variant": variant, "k": mi + ai + ti + si,
                                    "kind": "netcdf" if (mi + ai + si) % 4 == 0 else "text"})
    else:
        for mi, name in enumerate(names):
            for ti, typ in enumerate(TYPES):
                for rep in range(2):
                    ai = (mi * 3 + ti * 5 + rep * 11) % len(AXES)
                    variant = VARIANTS[(mi + ti + rep) % len(VARIANTS)]
                    out.append({"shape": SHAPES[(mi + ti * 2 + rep * 5) % len(SHAPES)], "metric": name, "axis": AXES[ai], "type": typ,
                                "variant": variant, "k": mi + ti + rep, "kind": "netcdf" if (mi + ti + rep) % 4 == 0 else "text"})
    # every diagram drawn with exactly one threshold / quantile (a requirement of some, e.g. droc), default axis, two shapes
    # (some diagrams also require a single input file, e.g. meteo: with all files and with the first file only)
    for di, name in enumerate(DIAGRAMS):
        for rep, (shape, first_only) in enumerate([("full2", False), ("full2", True), ("prob2", True), ("prob2", False), ("ens1", False), ("det1", False)]):
            out.append({"shape": shape, "metric": name, "axis": None, "type": "plot", "variant": "one",
                        "k": di + rep, "kind": "text", "first_only": first_only})
    # every diagram and every metric with exactly one threshold under each of the eight bin types
    for di, name in enumerate(DIAGRAMS):
        for bi, b in enumerate(BINS):
            out.append({"shape": ["full2", "prob2", "ens1"][(di + bi) % 3], "metric": name, "axis": None, "type": "plot", "variant": "one-b:" + b,
                        "k": di + bi, "kind": "text"})
    for mi, name in enumerate(mrun.ALL):
        for bi, b in enumerate(BINS):
            out.append({"shape": ["full2", "prob2", "full3"][(mi + bi) % 3], "metric": name, "axis": [None, "threshold", "leadtime"][(mi + bi) % 3],
                        "type": "csv", "variant": "one-b:" + b, "k": mi + bi, "kind": "text"})
    # every metric and diagram with a climatology file (-c / -C) that holds observations and forecasts only (a climatology needs no
    # probabilities: only its forecast is used)
    for mi, name in enumerate(names):
        out.append({"shape": "full2", "metric": name, "axis": None, "type": "csv" if name in mrun.ALL else "plot", "variant": "one", "k": mi,
                    "kind": "text", "clim": ["-c", "-C"][mi % 2]})
    # every diagram on every -x value (drawn), every metric on every -x value (csv), on two shapes whose dimensions have different
    # lengths in both directions (more lead times than times and the converse), so that an index meant for one dimension cannot
    # pass for another
    for di, name in enumerate(DIAGRAMS):
        for ai, axis in enumerate(AXES):
            for shape in ("full2-more-leads-than-times", "full3"):
                out.append({"shape": shape, "metric": name, "axis": axis, "type": "plot", "variant": "one", "k": di + ai, "kind": "text"})
    for mi, name in enumerate(mrun.ALL):
        for ai, axis in enumerate(AXES):
            out.append({"shape": ["full2-more-leads-than-times", "full3"][(mi + ai) % 2], "metric": name, "axis": axis, "type": "csv", "variant": "one",
                        "k": mi + ai, "kind": "text"})
    # every metric and diagram sliced by location / lead time on the dataset with zero-variance slices (a station that always observes
    # the same value, a location that is forecast perfectly, a file that always forecasts the same value somewhere)
    for mi, name in enumerate(names):
        for ai, axis in enumerate(["location", "leadtime", "lat"]):
            out.append({"shape": "full2-zero-variance", "metric": name, "axis": axis, "type": ["plot", "csv", "map"][(mi + ai) % 3] if ai < 2 else "plot",
                        "variant": "one", "k": mi + ai, "kind": "text"})
    # field metrics on the conditional axes with every aggregator and -r edges that leave bins empty
    n = 0
    for fld in ("obs", "fcst"):
        for axis in ("obs", "fcst"):
            for ai, agg in enumerate(AGGS + ["change", "abschange", "mean", "0.5"]):
                typ = ["csv", "plot", "text"][(n + ai) % 3]
                out.append({"shape": SHAPES[(n + ai) % len(SHAPES)], "metric": fld, "axis": axis, "type": typ, "variant": "empty-bins", "k": ai,
                            "agg": agg, "kind": "text"})
            n += 1
    # -hist / -sort on fields
    for fi, fld in enumerate(["obs", "fcst", "aux", "pit"]):
        for flag in ("-hist", "-sort"):
            for ti, typ in enumerate(["plot", "text", "csv"]):
                out.append({"shape": SHAPES[(fi + ti) % len(SHAPES)], "metric": fld, "axis": None, "type": typ, "variant": flag, "k": fi,
                            "kind": "text"})
    return out


_files = {}
_runs = [0]


def files_for(ctx, shape, kind, spec=None):
    from .. import mat
    key = (shape, kind)
    if key not in _files or not os.path.exists(_files[key][0]):
        d = os.path.join(ctx.scratch, "%s_%s" % (shape, kind))
        os.makedirs(d, exist_ok=True)
        paths, _ = mat.write_files(spec or fixed.get(shape), d, kind)
        _files[key] = paths
    return _files[key]


def run_item(ctx, item, paths):
    from .. import drive
    if item.get("first_only"):
        paths = list(paths)[:1]
    args = list(paths) + ["-m", item["metric"]]
    if item.get("clim"):
        args += [item["clim"], files_for(ctx, "det1", "text")[0]]
    if item["axis"] is not None:
        args += ["-x", item["axis"]]
    args += ["-type", item["type"]]
    if item["variant"] == "empty-bins":
        args += ["-r", "-1000,-500,0,500,1000", "-agg", item["agg"], "-b", ["within", "above", "below"][item.get("k", 0) % 3]]
    elif item["variant"] in ("-hist", "-sort"):
        args += [item["variant"], "-r", "-5,0,5"]
    else:
        args += variant_args(item["metric"], item["variant"], item.get("k", 0), item["axis"])
    out = None
    if item["type"] not in ("text", "csv"):
        out = os.path.join(ctx.scratch, "out_%d.png" % os.getpid())
        if os.path.exists(out):
            os.remove(out)
        args += ["-f", out, "-dpi", "30"]
    r = drive.run(args)
    _runs[0] += 1
    if _runs[0] % 25 == 0:
        drive.close_figures()
    return r, out, args


def judge(ctx, item, r, out, args):
    ctx.label("type=" + item["type"])
    ctx.label("axis=%s" % item["axis"])
    short = [os.path.basename(a) if os.sep in str(a) else a for a in args]
    if r.exc is not None:
        ctx.label("outcome=exception")
        ctx.fail("C19/exc/" + r.exc_key, item, "argv: %s\n%s" % (" ".join(map(str, short)), r.tb))
        return
    if r.exit is not None and r.exit != 0:
        ctx.label("outcome=error-exit")
        if "Error:" not in r.stdout:
            ctx.fail("C19/exit-without-message", item, "argv: %s: exit status %r without an 'Error:' line" % (" ".join(map(str, short)), r.exit))
        return
    ctx.label("outcome=ok")
    if out is not None and not (os.path.exists(out) and os.path.getsize(out) > 0):
        ctx.fail("C19/no-output-file", item, "argv: %s: returned normally but wrote no file" % " ".join(map(str, short)))


def check_item(item, ctx):
    if "spec" in item:
        return check_generated(item, ctx)
    paths = files_for(ctx, item["shape"], item.get("kind", "text"))
    r, out, args = run_item(ctx, item, paths)
    ctx.nt((item["metric"], item["axis"], item["type"], item["variant"], item["shape"], item.get("k"), item.get("kind"), item.get("first_only"), item.get("clim")))
    if item["metric"] in ("ets", "reliability", "mae") and item["type"] in ("plot", "csv"):
        ctx.sample({"combination": {k: item[k] for k in ("metric", "axis", "type", "variant", "shape")}, "outcome": "exception" if r.exc else ("error-exit" if r.exit else "ok")})
    judge(ctx, item, r, out, args)


# ---- generated datasets ---------------------------------------------------------------------
def gen_strategy(tier):
    @st.composite
    def s(draw):
        spec = draw(gen.dataset(max_inputs=3, clim="maybe", flavor="mix", core_max=3, extra_max=1, allow_drop=False, max_members=3))
        return {"spec": spec, "metric": draw(st.sampled_from(all_names())), "axis": draw(st.sampled_from(AXES)),
                "type": draw(st.sampled_from(TYPES)), "variant": draw(st.sampled_from(VARIANTS)), "k": draw(st.integers(0, 40)),
                "kind": draw(st.sampled_from(["text", "netcdf"]))}
    return s()


_gcount = [0]


def check_generated(case, ctx):
    from .. import mat
    _gcount[0] += 1
    d = os.path.join(ctx.scratch, "g%d" % _gcount[0])
    os.makedirs(d)
    spec = case["spec"]
    paths, cp = mat.write_files(spec, d, case.get("kind", "text"))
    item = {k: case[k] for k in case if k != "spec"}
    item["shape"] = "generated"
    r, out, args = run_item(ctx, item, paths + (["-c", cp] if cp else []))
    ctx.nt((case["metric"], case["axis"], case["type"], case["variant"], spec["times"], [dd["fcst"] for dd in spec["inputs"]]))
    judge(ctx, case, r, out, args)


# ---- every kind of diagram with arguments that suit it, drawn into a file ----------------------
def drawn_strategy(tier):
    from . import c16
    return c16.strategy(tier)


def check_drawn(case, ctx):
    """The C16 figure kinds (each with the -r/-q/-b/-x arguments that diagram needs, on generated datasets) written with
    -f: the run must draw and save the figure, or stop with an error message."""
    from .. import drive, mat, model
    from . import c16
    if "diagram" not in case:
        return check_item(case, ctx)
    spec = case["spec"]
    if model.DS(spec).empty:
        return
    dargs = c16.DIAGRAMS[case["diagram"]]["cls"].args(dict(case, opt=dict(case["opt"])), spec)
    if dargs is None:
        return
    _gcount[0] += 1
    d = os.path.join(ctx.scratch, "d%d" % _gcount[0])
    os.makedirs(d)
    paths, _ = mat.write_files(spec, d, "text")
    out = os.path.join(d, "fig.png")
    args = list(paths) + list(dargs) + ["-f", out, "-dpi", "30"]
    r = drive.run(args)
    _runs[0] += 1
    if _runs[0] % 25 == 0:
        drive.close_figures()
    ctx.evals += 1
    ctx.label("drawn=" + case["diagram"])
    ctx.nt(("drawn", case["diagram"], case["opt"], spec["times"], [dd["fcst"] for dd in spec["inputs"]]))
    judge(ctx, {"diagram": case["diagram"], "opt": case["opt"], "spec": spec, "type": "plot", "axis": case["opt"].get("axis")}, r, out, args)


def campaigns(tier):
    return [
        Enum("sweep", items, check_item, "stratified sample (quick) / full product (thorough) of metric x axis x type on fixed dataset shapes",
             budget_quick=75, budget_thorough=3600),
        Hyp("generated", gen_strategy, check_generated, quick=320, thorough=20000, budget_quick=40, budget_thorough=1500),
        Hyp("drawn", drawn_strategy, check_drawn, quick=480, thorough=12000, budget_quick=40, budget_thorough=1500),
    ]
