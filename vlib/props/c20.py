"""C20 - Helper scripts transform files as documented."""
import math
import os

from hypothesis import strategies as st

from .. import cmpx, gen, model
from ..runner import Hyp
from .c10 import run_script

ID = "C20"
TITLE = "Helper scripts transform files as documented"
RULE = ("Generated single-input files (text or NetCDF; times <= 2037 because the scripts store int32 seconds; ascending "
        "dimensions) run through the scripts in-process (runpy) and read back with netCDF4. accumulate: -w 1..len+1 / no -w, "
        "-x time|leadtime, -i: out[t,l,s] equals the sum of the trailing w entries (cumulative without -w), positions with an "
        "incomplete window are missing, a missing term makes the sum missing unless -i (then it counts 0). ens2prob: -r lists, "
        "-q lists incl. 0 and 1, -p: cdf in [0,1] and non-decreasing in the threshold and equal to the fraction of members "
        "below it, quantiles non-decreasing in the level and within the member range, PIT equal to the fraction of members "
        "below the observation and missing where the observation is missing. expandverif: -i hour lists, -lt lists: obs at "
        "(init, lead) equals the input observation whose valid time matches and is missing everywhere else. All: times, lead "
        "times, location id/lat/lon/elev and the untransformed fields are preserved. Non-trivial: window strictly between 1 "
        "and the axis length; ensemble with >=2 distinct members; >=2 init hours with a valid-time match; distinct by hash.")
ASSUMPTIONS = [
    "'fields they do not transform' = the fields the script writes at all and does not alter",
    "inputs for accumulate carry obs and fcst; inputs for ens2prob carry obs, fcst and an ensemble",
    "for expandverif, observations are a function of (valid time, location), as real observations are",
    "PIT and cdf are judged for cells whose members are all present (the treatment of missing members is not specified)",
    "accumulate -w 1 returns the series unchanged (also with -i)",
]

_counter = [0]


def small_times(spec):
    return all(t < 2 ** 31 - 86400 * 400 for t in spec["times"])


def acc_strategy(tier):
    @st.composite
    def s(draw):
        spec = draw(gen.dataset(max_inputs=1, clim=False, flavor="det", core_max=4, extra_max=1, allow_drop=False, ordered_dims=True,
                                allow_obsless=False, before_2037=True))
        d = spec["inputs"][0]
        axis = draw(st.sampled_from(["leadtime", "leadtime", "time"]))
        n = len(d["li"]) if axis == "leadtime" else len(d["ti"])
        w = draw(st.one_of(st.none(), st.integers(1, n + 1)))
        return {"spec": spec, "axis": axis, "w": w, "ignore": draw(st.booleans()), "kind": draw(st.sampled_from(["text", "netcdf"])),
                "explicit_x": draw(st.booleans())}
    return s()


def read_nc(path):
    import netCDF4
    import numpy as np
    nc = netCDF4.Dataset(path, "r")
    out = {}
    for name in nc.variables:
        v = nc.variables[name][:]
        a = np.ma.filled(np.ma.masked_invalid(np.ma.array(v, dtype=float)), np.nan)
        a = np.where(a > 1e30, np.nan, a)
        out[name] = np.array(a, float)
    attrs = dict((k, getattr(nc, k)) for k in nc.ncattrs())
    nc.close()
    return out, attrs


def write_input(ctx, spec, kind):
    from .. import mat
    _counter[0] += 1
    base = os.path.join(ctx.scratch, "s%d" % _counter[0])
    os.makedirs(base)
    d = spec["inputs"][0]
    path = os.path.join(base, "in" + (".txt" if kind == "text" else ".nc"))
    if kind == "text":
        mat.write_text(d, spec, path)
    else:
        mat.write_netcdf(d, spec, path)
    return base, path


def sorted_view(spec, name):
    """Nested field of the single input re-ordered to ascending times/leadtimes/ids as a numpy array,
    plus the sorted coordinate lists (the readers sort text files; NetCDF keeps file order)."""
    import numpy as np
    from .. import mat
    d = spec["inputs"][0]
    a = mat.arr(d[name])
    return a


def check_preserved(ctx, key, sub, out, spec, order=None, check_fields=()):
    import numpy as np
    d = spec["inputs"][0]
    times = [spec["times"][i] for i in d["ti"]]
    leads = [spec["leadtimes"][i] for i in d["li"]]
    locs = [spec["locs"][i] for i in d["si"]]
    ok = True
    if sorted(out["time"].tolist()) != sorted(float(t) for t in times):
        ctx.fail(key + "/preserve/time", sub, "times %r, input has %r" % (out["time"].tolist(), times))
        ok = False
    if sorted(out["leadtime"].tolist()) != sorted(float(l) for l in leads):
        ctx.fail(key + "/preserve/leadtime", sub, "lead times %r, input has %r" % (out["leadtime"].tolist(), leads))
        ok = False
    ids = out["location"].tolist()
    if sorted(ids) != sorted(float(l["id"]) for l in locs):
        ctx.fail(key + "/preserve/location", sub, "ids %r, input has %r" % (ids, [l["id"] for l in locs]))
        return False
    by = dict((float(l["id"]), l) for l in locs)
    for j, i_d in enumerate(ids):
        e = by[i_d]
        if not (cmpx.close(out["lat"][j], e["lat"], 1e-6) and cmpx.close(out["lon"][j], e["lon"], 1e-6) and cmpx.close(out["altitude"][j], e["elev"], 1e-6)):
            ctx.fail(key + "/preserve/location-metadata", sub, "id %r: (%r,%r,%r), input has %r" % (i_d, out["lat"][j], out["lon"][j], out["altitude"][j], e))
            ok = False
    return ok


def aligned(spec, out, name):
    """Input field as an array aligned with the output's coordinate order."""
    import numpy as np
    from .. import mat
    d = spec["inputs"][0]
    a = mat.arr(d[name])
    times = [float(spec["times"][i]) for i in d["ti"]]
    leads = [float(spec["leadtimes"][i]) for i in d["li"]]
    ids = [float(spec["locs"][i]["id"]) for i in d["si"]]
    tp = [times.index(t) for t in out["time"].tolist()]
    lp = [leads.index(l) for l in out["leadtime"].tolist()]
    sp_ = [ids.index(i) for i in out["location"].tolist()]
    return a[tp][:, lp][:, :, sp_]


def check_accumulate(case, ctx):
    import numpy as np
    from ..runner import repo_frame_key
    spec = case["spec"]
    d = spec["inputs"][0]
    base, path = write_input(ctx, spec, case["kind"])
    out_path = os.path.join(base, "out.nc")
    argv = [path, out_path]
    if case["w"] is not None:
        argv += ["-w", case["w"]]
    if case["ignore"]:
        argv += ["-i"]
    if case["axis"] != "leadtime" or case["explicit_x"]:
        argv += ["-x", case["axis"]]
    code, exc, outp = run_script("accumulate.py", argv)
    ctx.evals += 1
    n = len(d["li"]) if case["axis"] == "leadtime" else len(d["ti"])
    w = case["w"]
    sub = dict(case)
    ctx.label("acc/w=%s" % ("none" if w is None else ("1" if w == 1 else ("len+1" if w > n else ("len" if w == n else "mid")))))
    if w is not None and 1 < w < n:
        ctx.nt(("acc", d["fcst"], d["obs"], w, case["axis"], case["ignore"]))
        ctx.label("nontrivial")
        ctx.sample({"script": "accumulate", "argv": [str(a) if os.sep not in str(a) else os.path.basename(str(a)) for a in argv], "axis_len": n})
    if exc is not None:
        ctx.fail("C20/accumulate/exception/%s" % (repo_frame_key(exc) or type(exc).__name__), sub, "%s: %s" % (type(exc).__name__, exc))
        return
    if w is not None and w > n:
        if code in (None, 0):
            ctx.fail("C20/accumulate/long-window-accepted", sub, "window %d longer than the axis (%d) but the script succeeded" % (w, n))
        return
    if code not in (None, 0):
        ctx.fail("C20/accumulate/failed", sub, "exit %r: %s" % (code, outp[-300:]))
        return
    out, attrs = read_nc(out_path)
    if not check_preserved(ctx, "C20/accumulate", sub, out, spec):
        return
    ax = 1 if case["axis"] == "leadtime" else 0
    for name in ("obs", "fcst"):
        a = aligned(spec, out, name)
        a = np.moveaxis(a, ax, 0)
        exp = np.full(a.shape, np.nan)
        for k in range(a.shape[0]):
            lo = 0 if w is None else k - w + 1
            if lo < 0:
                continue
            win = a[lo:k + 1]
            if case["ignore"] and w != 1:
                exp[k] = np.nansum(win, axis=0)
            else:
                exp[k] = np.sum(win, axis=0)
        exp = np.moveaxis(exp, 0, ax)
        got = out[name]
        if got.shape != exp.shape:
            ctx.fail("C20/accumulate/shape", sub, "%s shape %r vs %r" % (name, got.shape, exp.shape))
            return
        if not np.array_equal(np.isnan(got), np.isnan(exp)):
            ctx.fail("C20/accumulate/missing", sub, "%s: positions marked missing differ.\ngot %r\nexpected %r" % (name, got.tolist(), exp.tolist()))
            return
        if not np.allclose(np.nan_to_num(got), np.nan_to_num(exp), rtol=1e-6, atol=1e-6):
            ctx.fail("C20/accumulate/sum", sub, "%s: sums differ.\ngot %r\nexpected %r" % (name, got.tolist(), exp.tolist()))
            return


# ---- ens2prob ------------------------------------------------------------------------------
def ens_strategy(tier):
    @st.composite
    def s(draw):
        spec = draw(gen.dataset(max_inputs=1, clim=False, flavor="ens", core_max=3, extra_max=1, allow_drop=False, ordered_dims=True,
                                allow_obsless=False, max_members=5, before_2037=True))
        members = sorted(set(v for pl in spec["inputs"][0]["ens"] for row in pl for cell in row for v in cell if v is not None)) or [0.0]
        thr = draw(st.lists(st.sampled_from(members + [members[0] - 1, members[-1] + 1, 0.125]), min_size=0, max_size=3, unique=True))   # any order
        qs = sorted(draw(st.lists(st.sampled_from([0.0, 0.1, 0.25, 0.5, 0.75, 0.9, 1.0]), min_size=0, max_size=4, unique=True)))
        return {"spec": spec, "thresholds": thr, "quantiles": qs, "pit": draw(st.booleans()), "kind": draw(st.sampled_from(["text", "netcdf"]))}
    return s()


def check_ens2prob(case, ctx):
    import numpy as np
    from ..runner import repo_frame_key
    from .c13 import spell
    spec = case["spec"]
    d = spec["inputs"][0]
    base, path = write_input(ctx, spec, case["kind"])
    out_path = os.path.join(base, "out.nc")
    argv = [path, out_path]
    if case["thresholds"]:
        argv += ["-r=" + ",".join(spell(t) for t in case["thresholds"])]   # '=' form: argparse takes a leading '-' for a flag
    if case["quantiles"]:
        argv += ["-q=" + ",".join(spell(q) for q in case["quantiles"])]
    if case["pit"]:
        argv += ["-p"]
    code, exc, outp = run_script("ens2prob.py", argv)
    ctx.evals += 1
    sub = dict(case)
    M = d["members"]
    ctx.label("ens2prob/members=%d" % M)
    distinct = any(len(set(v for v in cell if v is not None)) >= 2 for pl in d["ens"] for row in pl for cell in row)
    if distinct and (case["thresholds"] or case["quantiles"] or case["pit"]):
        ctx.nt(("ens2prob", d["ens"], d["obs"], case["thresholds"], case["quantiles"], case["pit"]))
        ctx.label("nontrivial")
        ctx.sample({"script": "ens2prob", "argv": [os.path.basename(str(a)) if os.sep in str(a) else str(a) for a in argv], "members": M})
    if exc is not None:
        ctx.fail("C20/ens2prob/exception/%s%s" % (repo_frame_key(exc) or type(exc).__name__, "/single-member" if M == 1 else ""), sub, "%s: %s" % (type(exc).__name__, exc))
        return
    if code not in (None, 0):
        ctx.fail("C20/ens2prob/failed", sub, "exit %r: %s" % (code, outp[-300:]))
        return
    out, attrs = read_nc(out_path)
    if not check_preserved(ctx, "C20/ens2prob", sub, out, spec):
        return
    for name in ("obs", "fcst"):
        a = aligned(spec, out, name)
        if name not in out or not np.array_equal(np.isnan(out[name]), np.isnan(a)) or not np.allclose(np.nan_to_num(out[name]), np.nan_to_num(a), rtol=1e-6, atol=1e-6):
            ctx.fail("C20/ens2prob/preserve/" + name, sub, "%s was altered" % name)
            return
    ens = aligned(spec, out, "ens")
    obs = aligned(spec, out, "obs")
    complete = ~np.isnan(ens).any(axis=3)
    lo = np.nanmin(np.where(np.isnan(ens), np.inf, ens), axis=3)
    hi = np.nanmax(np.where(np.isnan(ens), -np.inf, ens), axis=3)
    if case["thresholds"]:
        cdf = out["cdf"]
        if not np.allclose(out["threshold"], case["thresholds"], rtol=1e-6, atol=1e-6):
            ctx.fail("C20/ens2prob/thresholds", sub, "threshold variable %r, requested %r" % (out["threshold"].tolist(), case["thresholds"]))
        v = cdf[~np.isnan(cdf)]
        if ((v < -1e-6) | (v > 1 + 1e-6)).any():
            ctx.fail("C20/ens2prob/cdf/range", sub, "cumulative probabilities outside [0,1]: %r" % v[(v < 0) | (v > 1)][:5].tolist())
        order = np.argsort(case["thresholds"])
        dif = np.diff(cdf[..., order], axis=3)
        if (dif[~np.isnan(dif)] < -1e-6).any():
            ctx.fail("C20/ens2prob/cdf/monotone", sub, "cumulative probability decreases with the threshold")
        for k, t in enumerate(case["thresholds"]):
            exp = np.mean(ens < t, axis=3)
            g = cdf[..., k]
            if not np.allclose(g[complete], exp[complete], rtol=1e-6, atol=1e-6):
                ctx.fail("C20/ens2prob/cdf/value", sub, "cdf at threshold %r: %r, fraction of members below %r" % (t, g[complete][:5].tolist(), exp[complete][:5].tolist()))
                break
    if case["quantiles"]:
        x = out["x"]
        dif = np.diff(x, axis=3)
        if (dif[~np.isnan(dif)] < -1e-6).any():
            ctx.fail("C20/ens2prob/quantile/monotone", sub, "quantile decreases with the level: %r" % x.reshape(-1, x.shape[-1])[:3].tolist())
        for k, q in enumerate(case["quantiles"]):
            g = x[..., k]
            sel = complete & ~np.isnan(g)
            if (g[sel] < lo[sel] - 1e-5).any() or (g[sel] > hi[sel] + 1e-5).any():
                ctx.fail("C20/ens2prob/quantile/range", sub, "quantile %r outside the ensemble range" % q)
                break
            if M >= 2 and np.isnan(g[complete]).any():
                ctx.fail("C20/ens2prob/quantile/missing", sub, "quantile %r is missing although all members are present" % q)
                break
    if case["pit"]:
        pit = out["pit"]
        miss_obs = np.isnan(obs)
        if (~np.isnan(pit[miss_obs])).any():
            ctx.fail("C20/ens2prob/pit/obs-missing", sub, "PIT = %r where the observation is missing" % pit[miss_obs][:5].tolist())
        sel = complete & ~miss_obs
        exp = np.mean(ens < obs[..., None], axis=3)
        if not np.allclose(pit[sel], exp[sel], rtol=1e-6, atol=1e-6):
            ctx.fail("C20/ens2prob/pit/value", sub, "PIT %r, fraction of members below the observation %r" % (pit[sel][:5].tolist(), exp[sel][:5].tolist()))


# ---- expandverif ---------------------------------------------------------------------------
def expand_strategy(tier):
    @st.composite
    def s(draw):
        n_days = draw(st.integers(1, 3))
        day0 = draw(st.integers(10957, 24000))          # 2000 .. 2035
        hours = sorted(draw(st.lists(st.sampled_from([0, 6, 12, 18]), min_size=1, max_size=2, unique=True)))
        times = sorted(set((day0 + dd) * 86400 + h * 3600 for dd in range(n_days) for h in hours))
        fine = draw(st.sampled_from([False, False, True]))      # fractional lead times (half hours)
        leads = sorted(draw(st.lists(st.sampled_from([0, 0.5, 1, 1.5, 2.5, 3, 6, 6.5, 12] if fine else [0, 6, 12, 18, 24, 30, 36, 48]), min_size=1, max_size=4, unique=True)))
        n_loc = draw(st.integers(1, 3))
        locs = [{"id": i * 5 + 2, "lat": 10.25 * i - 3, "lon": 100.5 - 7 * i, "elev": 12.5 * i} for i in range(n_loc)]
        valid = sorted(set(t + int(l * 3600) for t in times for l in leads))
        vals = draw(st.lists(st.one_of(st.none(), st.integers(-40, 40).map(lambda i: i / 4.0), st.integers(-40, 40).map(lambda i: i / 4.0)),
                             min_size=len(valid) * n_loc, max_size=len(valid) * n_loc))
        table = {}
        for vi, vt in enumerate(valid):
            for c in range(n_loc):
                table[(vt, c)] = vals[vi * n_loc + c]
        obs = [[[table[(t + int(l * 3600), c)] for c in range(n_loc)] for l in leads] for t in times]
        fcst = [[[1.0 for c in range(n_loc)] for l in leads] for t in times]
        spec = {"times": times, "leadtimes": [float(l) for l in leads], "locs": locs, "var": {"name": "Temp", "units": "K", "x0": None, "x1": None},
                "inputs": [{"name": "f0", "ti": list(range(len(times))), "li": list(range(len(leads))), "si": list(range(n_loc)), "obs": obs, "fcst": fcst}], "clim": None}
        init = sorted(draw(st.lists(st.sampled_from([0, 3, 6, 12, 18]), min_size=1, max_size=3, unique=True)))
        olt = sorted(draw(st.lists(st.sampled_from([0, 0.5, 1, 1.5, 2.5, 3, 6, 6.5, 12, 12.5] if fine else [0, 3, 6, 12, 18, 24, 36, 42, 60]), min_size=1, max_size=4, unique=True)))
        return {"spec": spec, "init": init, "lt": olt, "kind": draw(st.sampled_from(["text", "netcdf"]))}
    return s()


def check_expand(case, ctx):
    import numpy as np
    from ..runner import repo_frame_key
    spec = case["spec"]
    d = spec["inputs"][0]
    base, path = write_input(ctx, spec, case["kind"])
    out_path = os.path.join(base, "out.nc")
    argv = [path, "-o", out_path, "-i", ",".join("%d" % h for h in case["init"]), "-lt", ",".join(("%d" % l) if float(l) == int(l) else repr(float(l)) for l in case["lt"])]
    code, exc, outp = run_script("expandverif.py", argv)
    ctx.evals += 1
    sub = dict(case)
    if exc is not None:
        ctx.fail("C20/expandverif/exception/%s" % (repo_frame_key(exc) or type(exc).__name__), sub, "%s: %s" % (type(exc).__name__, exc))
        return
    if code not in (None, 0):
        ctx.fail("C20/expandverif/failed", sub, "exit %r: %s" % (code, outp[-300:]))
        return
    out, attrs = read_nc(out_path)
    times = spec["times"]
    leads = spec["leadtimes"]
    days = sorted(set(t - t % 86400 for t in times))
    exp_times = sorted(dd + h * 3600 for h in case["init"] for dd in days)
    if sorted(out["time"].tolist()) != [float(t) for t in exp_times]:
        ctx.fail("C20/expandverif/times", sub, "output times %r, expected days x init hours %r" % (out["time"].tolist(), exp_times))
        return
    if out["leadtime"].tolist() != [float(l) for l in case["lt"]]:
        ctx.fail("C20/expandverif/leadtimes", sub, "output lead times %r, requested %r" % (out["leadtime"].tolist(), case["lt"]))
        return
    locs = spec["locs"]
    if out["location"].tolist() != [float(l["id"]) for l in locs] and sorted(out["location"].tolist()) != sorted(float(l["id"]) for l in locs):
        ctx.fail("C20/expandverif/preserve/location", sub, "ids %r" % out["location"].tolist())
        return
    by = dict((float(l["id"]), (c, l)) for c, l in enumerate(locs))
    for j, i_d in enumerate(out["location"].tolist()):
        e = by[i_d][1]
        if not (cmpx.close(out["lat"][j], e["lat"], 1e-6) and cmpx.close(out["lon"][j], e["lon"], 1e-6) and cmpx.close(out["altitude"][j], e["elev"], 1e-6)):
            ctx.fail("C20/expandverif/preserve/location-metadata", sub, "id %r metadata changed" % i_d)
    table = {}
    for a, t in enumerate(times):
        for b, l in enumerate(leads):
            for c in range(len(locs)):
                table[(t + int(l * 3600), c)] = d["obs"][a][b][c]
    matches = 0
    inits_with_match = set()
    obs = out["obs"]
    for a, t in enumerate(out["time"].tolist()):
        for b, l in enumerate(out["leadtime"].tolist()):
            for j, i_d in enumerate(out["location"].tolist()):
                c = by[i_d][0]
                e = table.get((int(t) + int(l * 3600), c))
                g = obs[a, b, j]
                if e is None:
                    if not np.isnan(g):
                        ctx.fail("C20/expandverif/elsewhere", sub, "obs %r placed at init %r lead %r location %r where no input observation has that valid time" % (g, t, l, i_d))
                        return
                else:
                    matches += 1
                    inits_with_match.add(int(t) % 86400)
                    if not cmpx.close(g, e, 1e-6):
                        ctx.fail("C20/expandverif/match", sub, "obs at init %r lead %r location %r is %r, the input observation valid then is %r" % (t, l, i_d, g, e))
                        return
    if any(float(l) != int(l) for l in case["lt"]):
        ctx.label("expand/fractional-lead-time")
    if len(case["init"]) >= 2 and len(inits_with_match) >= 2:
        ctx.nt(("expand", times, leads, case["init"], case["lt"], d["obs"]))
        ctx.label("nontrivial")
        ctx.sample({"script": "expandverif", "init": case["init"], "lt": case["lt"], "input_times": times, "input_leadtimes": leads, "matches": matches})


# ---- accumulate on files of ordinary size (a month of runs, two days of hourly lead times) -------------------------
def acc_long_strategy(tier):
    """The generated datasets above have at most 5 entries per dimension. Real files are longer, and code paths may depend on the size
    (e.g. a library routine choosing another algorithm), so a second campaign builds larger files: only the sizes, the window, the
    positions of a few missing values and a seed are drawn; the values follow from the seed by a fixed recurrence."""
    @st.composite
    def s(draw):
        return {"long": {"T": draw(st.sampled_from([4, 12, 20])), "L": draw(st.sampled_from([12, 24, 48])), "S": draw(st.sampled_from([3, 10])),
                         "seed": draw(st.integers(1, 10 ** 6)), "n_missing": draw(st.sampled_from([0, 1, 1, 2, 5]))},
                "axis": draw(st.sampled_from(["leadtime", "leadtime", "time"])), "w": draw(st.sampled_from([2, 3, 6, 12, 24])),
                "ignore": draw(st.sampled_from([False, False, True])), "kind": "netcdf", "explicit_x": draw(st.booleans())}
    return s()


def long_spec(p):
    from .. import fixed
    rnd = fixed._lcg(p["seed"])
    T, L, S = p["T"], p["L"], p["S"]
    times = [1262304000 + 86400 * a for a in range(T)]
    leads = [float(b) for b in range(L)]
    locs = [{"id": 10 + c, "lat": 40.0 + c, "lon": 5.0 + 0.5 * c, "elev": 100.0 + 10 * c} for c in range(S)]
    obs = [[[rnd(81) / 4.0 for _ in range(S)] for _ in range(L)] for _ in range(T)]
    fcst = [[[rnd(81) / 4.0 for _ in range(S)] for _ in range(L)] for _ in range(T)]
    for k in range(p["n_missing"]):
        arr = obs if k % 2 == 0 else fcst
        arr[rnd(T)][rnd(L)][rnd(S)] = None
    d = {"name": "long", "ti": list(range(T)), "li": list(range(L)), "si": list(range(S)), "obs": obs, "fcst": fcst}
    return {"times": times, "leadtimes": leads, "locs": locs, "var": {"name": "Precip", "units": "mm", "x0": None, "x1": None}, "inputs": [d], "clim": None}


def check_accumulate_long(case, ctx):
    if "long" not in case:
        return check_accumulate(case, ctx)
    p = case["long"]
    n = p["L"] if case["axis"] == "leadtime" else p["T"]
    if case["w"] > n:
        return
    ctx.label("acc-long/%dx%dx%d" % (p["T"], p["L"], p["S"]))
    return check_accumulate(dict(case, spec=long_spec(p)), ctx)


def campaigns(tier):
    return [
        Hyp("accumulate", acc_strategy, check_accumulate, quick=960, thorough=30000, budget_quick=50, budget_thorough=1200),
        Hyp("accumulate-long", acc_long_strategy, check_accumulate_long, quick=96, thorough=3000, budget_quick=40, budget_thorough=900),
        Hyp("ens2prob", ens_strategy, check_ens2prob, quick=960, thorough=30000, budget_quick=50, budget_thorough=1200),
        Hyp("expandverif", expand_strategy, check_expand, quick=640, thorough=20000, budget_quick=50, budget_thorough=1200),
    ]
