"""Campaign runner: sharding, collection, bucketing, shrinking, replay, evidence, known findings.

A property module (vlib/props/cXX.py) exposes

    ID, TITLE, RULE, ASSUMPTIONS
    campaigns(tier) -> list of Hyp / Enum campaigns

Each campaign has a `check(case, ctx)` that runs the named sub-oracles of the property on one
generated case. A failing sub-oracle does not raise: it calls ctx.fail(key, case, msg) and the
campaign goes on, so one shallow defect does not hide the rest (DESIGN 1.5). After the campaign
the distinct keys are compared with KNOWN_FINDINGS.txt; unknown keys are minimised with a second
Hypothesis pass (generate+shrink) and written as replay files.

Exit codes: 0 held / 1 VIOLATION printed / 2 harness error.
"""
import collections
import contextlib
import hashlib
import importlib
import json
import math
import multiprocessing
import os
import shutil
import sys
import tempfile
import time
import traceback

from . import boot

class _Sink(object):
    def write(self, s):
        return len(s)

    def flush(self):
        pass


_SINK = _Sink()

NSHARDS = int(os.environ.get("VERIF_SHARDS", "16"))
SCALE = float(os.environ.get("VERIF_SCALE", "1"))
# The quick tier's case counts and wall budgets written in the campaign tables are multiplied by these factors, chosen so that every
# quick check takes about 30-60 s on 16 cores (the counts in the tables date from when the checks were first built and left most of
# that time unused; rare trigger classes are met in proportion to the number of cases).
QUICK_SCALE = {"C01": 3, "C02": 4, "C03": 5, "C04": 3, "C05": 4, "C06": 4, "C07": 4, "C08": 5, "C09": 6, "C10": 5, "C11": 5, "C12": 5,
               "C13": 4, "C14": 4, "C15": 5, "C16": 2.5, "C17": 1.5, "C18": 3, "C19": 1.5, "C20": 5}


def n_examples(camp, tier, pid, nshards):
    f = SCALE * (QUICK_SCALE.get(pid, 1) if tier == "quick" else 1)
    return int(math.ceil(camp.examples[tier] * f / float(nshards)))


def budget_of(camp, tier, pid):
    return camp.budget[tier] * (QUICK_SCALE.get(pid, 1) if tier == "quick" and camp.kind != "enum" else 1)


# --------------------------------------------------------------------------------------
# JSON helpers
# --------------------------------------------------------------------------------------
def enc(obj):
    """JSON-able encoding that round-trips nan/inf and tuples (tuples become lists)."""
    if isinstance(obj, float):
        if math.isnan(obj):
            return {"$f": "nan"}
        if math.isinf(obj):
            return {"$f": "inf" if obj > 0 else "-inf"}
        return obj
    if isinstance(obj, (str, bool, int)) or obj is None:
        return obj
    if isinstance(obj, dict):
        return {str(k): enc(v) for k, v in obj.items()}
    if isinstance(obj, (list, tuple)):
        return [enc(v) for v in obj]
    try:
        import numpy as np
        if isinstance(obj, np.generic):
            return enc(obj.item())
        if isinstance(obj, np.ndarray):
            return enc(obj.tolist())
    except ImportError:
        pass
    return repr(obj)


def dec(obj):
    if isinstance(obj, dict):
        if set(obj.keys()) == {"$f"}:
            return float(obj["$f"])
        return {k: dec(v) for k, v in obj.items()}
    if isinstance(obj, list):
        return [dec(v) for v in obj]
    return obj


def plain(obj, maxlen=60):
    """Strict-JSON rendering for evidence samples (nan -> "NaN", long lists truncated)."""
    if isinstance(obj, float):
        if math.isnan(obj):
            return "NaN"
        if math.isinf(obj):
            return "inf" if obj > 0 else "-inf"
        return obj
    if isinstance(obj, (str, bool, int)) or obj is None:
        return obj
    if isinstance(obj, dict):
        return {str(k): plain(v, maxlen) for k, v in obj.items()}
    if isinstance(obj, (list, tuple)):
        out = [plain(v, maxlen) for v in obj[:maxlen]]
        if len(obj) > maxlen:
            out.append("... (%d more)" % (len(obj) - maxlen))
        return out
    return plain(enc(obj), maxlen)


def digest(obj):
    return hashlib.blake2b(json.dumps(enc(obj), sort_keys=True).encode(), digest_size=8).hexdigest()


def case_size(case):
    return len(json.dumps(enc(case)))


# --------------------------------------------------------------------------------------
# Collector
# --------------------------------------------------------------------------------------
class Ctx(object):
    MAX_HASHES = 400000

    def __init__(self, tier="quick", seed=1, shard=0, nshards=1, scratch=None, campaign=""):
        self.tier = tier
        self.seed = seed
        self.shard = shard
        self.nshards = nshards
        self.scratch = scratch
        self.campaign = campaign
        self.evals = 0
        self.fails = {}          # key -> dict(count, case, msg, size)
        self.labels = collections.Counter()
        self.nontrivial = set()
        self.samples = []
        self.excluded = collections.Counter()
        self.inconclusive = 0
        self.exhaustive = {}

    # -- recording ------------------------------------------------------------------
    def fail(self, key, case, msg=""):
        b = self.fails.get(key)
        size = case_size(case)
        if b is None:
            self.fails[key] = {"count": 1, "case": case, "msg": str(msg)[:2000], "size": size,
                               "campaign": self.campaign, "shard": self.shard}
        else:
            b["count"] += 1
            if size < b["size"]:
                b.update(case=case, msg=str(msg)[:2000], size=size, shard=self.shard)

    def label(self, name, n=1):
        self.labels[name] += n

    def nt(self, obj):
        """Register a non-trivial case (by content hash)."""
        if len(self.nontrivial) < self.MAX_HASHES:
            self.nontrivial.add(digest(obj))

    def sample(self, case, limit=2):
        if len(self.samples) < limit:
            self.samples.append(plain(case))

    def exclude(self, why, n=1):
        self.excluded[why] += n

    def summary(self):
        return {"evals": self.evals, "fails": self.fails, "labels": dict(self.labels),
                "nontrivial": list(self.nontrivial), "samples": self.samples,
                "excluded": dict(self.excluded), "inconclusive": self.inconclusive,
                "exhaustive": self.exhaustive, "campaign": self.campaign, "shard": self.shard}


# --------------------------------------------------------------------------------------
# Campaign kinds
# --------------------------------------------------------------------------------------
class Hyp(object):
    """Hypothesis-driven campaign. strategy(tier) returns a strategy of JSON-able cases."""
    kind = "hyp"

    def __init__(self, name, strategy, check, quick, thorough, budget_quick=45, budget_thorough=900):
        self.name = name
        self.strategy = strategy
        self.check = check
        self.examples = {"quick": quick, "thorough": thorough}
        self.budget = {"quick": budget_quick, "thorough": budget_thorough}


class Enum(object):
    """Exhaustive campaign over a finite list. items(tier) returns a list (or generator) of
    JSON-able cases; shards take every nshards-th item."""
    kind = "enum"

    def __init__(self, name, items, check, exhaustive_note=None, budget_quick=60, budget_thorough=900):
        self.name = name
        self.items = items
        self.check = check
        self.note = exhaustive_note
        self.budget = {"quick": budget_quick, "thorough": budget_thorough}


class Custom(object):
    """Campaign that drives its own generation (e.g. a Hypothesis RuleBasedStateMachine).
    run(ctx, tier, seedval, n) generates and checks; check(case, ctx) replays one recorded case."""
    kind = "custom"

    def __init__(self, name, run, check, quick, thorough, budget_quick=45, budget_thorough=900):
        self.name = name
        self.run = run
        self.check = check
        self.examples = {"quick": quick, "thorough": thorough}
        self.budget = {"quick": budget_quick, "thorough": budget_thorough}


def repo_frame_key(exc):
    """type@module.function of the innermost traceback frame that lies in the repository under
    test; None when no frame of the repository is on the stack (harness error)."""
    tb = traceback.extract_tb(exc.__traceback__)
    repo = os.path.realpath(boot.REPO) + os.sep
    best = None
    for fr in tb:
        fn = os.path.realpath(fr.filename)
        if fn.startswith(repo):
            mod = os.path.splitext(os.path.relpath(fn, repo))[0].replace(os.sep, ".")
            best = "%s@%s.%s" % (type(exc).__name__, mod, fr.name)
    return best


def guarded(check, case, ctx, pid):
    """Run check; an exception escaping from repository code becomes a bucketed failure, an
    exception from the harness itself propagates (exit 2)."""
    import hypothesis.errors
    try:
        with contextlib.redirect_stdout(_SINK):
            check(case, ctx)
    except hypothesis.errors.HypothesisException:
        raise
    except (Exception, SystemExit) as e:
        key = repo_frame_key(e)
        if key is None:
            raise
        ctx.fail("%s/exc/%s" % (pid, key), case, "".join(traceback.format_exception(type(e), e, e.__traceback__))[-1500:])


def hyp_settings(n, phases):
    from hypothesis import settings, HealthCheck
    return settings(max_examples=max(1, n), database=None, deadline=None, derandomize=False,
                    report_multiple_bugs=False, phases=phases,
                    suppress_health_check=[HealthCheck.too_slow, HealthCheck.data_too_large,
                                           HealthCheck.large_base_example, HealthCheck.differing_executors,
                                           HealthCheck.function_scoped_fixture, HealthCheck.nested_given])


def shard_seed(seed, shard, camp_idx):
    return (int(seed) * 1000 + shard) * 100 + camp_idx


def run_hyp(camp, ctx, pid, n, seedval, budget):
    from hypothesis import given, seed, Phase
    t_end = time.time() + budget

    @seed(seedval)
    @hyp_settings(n, [Phase.generate])
    @given(camp.strategy(ctx.tier))
    def t(case):
        if time.time() > t_end:
            ctx.inconclusive += 1
            return
        ctx.evals += 1
        guarded(camp.check, case, ctx, pid)
    t()


def run_enum(camp, ctx, pid, budget):
    t_end = time.time() + budget
    total = 0
    done = True
    for i, case in enumerate(camp.items(ctx.tier)):
        total += 1
        if i % ctx.nshards != ctx.shard:
            continue
        if time.time() > t_end:
            ctx.inconclusive += 1
            done = False
            continue
        ctx.evals += 1
        guarded(camp.check, case, ctx, pid)
    ctx.exhaustive[camp.name] = {"complete": done, "size": total, "note": camp.note}


def _load(modname):
    boot.ensure_paths()
    return importlib.import_module("vlib.props." + modname.lower())


def _task(args):
    modname, tier, seed, camp_idx, shard, nshards, scratch_root = args
    cov = _linecov_start(modname, camp_idx, shard)
    try:
        return _task_inner(args)
    finally:
        if cov is not None:
            cov.stop()
            cov.save()


def _linecov_start(modname, camp_idx, shard):
    """Development aid (tools/linecov.sh): with VERIF_LINECOV=<dir> every worker records which lines of the
    repository it executed. Off by default; needs the 'coverage' package; has no influence on any verdict."""
    d = os.environ.get("VERIF_LINECOV")
    if not d:
        return None
    import coverage
    repo = os.environ.get("VERIF_REPO", "/repo")
    cov = coverage.Coverage(data_file=os.path.join(d, "cov.%s.%d.%d" % (modname, camp_idx, shard)),
                            include=[repo + "/verif/*", repo + "/scripts/*"], omit=[repo + "/verif/tests/*"])
    cov.start()
    return cov


def _task_inner(args):
    modname, tier, seed, camp_idx, shard, nshards, scratch_root = args
    try:
        mod = _load(modname)
        camp = mod.campaigns(tier)[camp_idx]
        scratch = tempfile.mkdtemp(prefix="s%02d_%d_" % (shard, camp_idx), dir=scratch_root)
        ctx = Ctx(tier, seed, shard, nshards, scratch, camp.name)
        t0 = time.time()
        if camp.kind == "hyp":
            n = n_examples(camp, tier, mod.ID, nshards)
            run_hyp(camp, ctx, mod.ID, n, shard_seed(seed, shard, camp_idx), budget_of(camp, tier, mod.ID))
        elif camp.kind == "custom":
            n = n_examples(camp, tier, mod.ID, nshards)
            with contextlib.redirect_stdout(_SINK):
                camp.run(ctx, tier, shard_seed(seed, shard, camp_idx), n, time.time() + budget_of(camp, tier, mod.ID))
        else:
            run_enum(camp, ctx, mod.ID, camp.budget[tier])
        out = ctx.summary()
        out["wall"] = time.time() - t0
        shutil.rmtree(scratch, ignore_errors=True)
        return ("ok", out)
    except BaseException as e:  # harness error
        return ("err", "campaign %s shard %s: %s" % (camp_idx, shard, "".join(traceback.format_exception(type(e), e, e.__traceback__))))


# --------------------------------------------------------------------------------------
# Known findings
# --------------------------------------------------------------------------------------
def load_findings(pid):
    """Returns dict key -> description for `finding:` lines of this property."""
    path = os.path.join(boot.HERE, "KNOWN_FINDINGS.txt")
    out = collections.OrderedDict()
    if not os.path.exists(path):
        return out
    for line in open(path):
        line = line.strip()
        if not line.startswith("finding:"):
            continue
        parts = line[len("finding:"):].split()
        d = dict(p.split("=", 1) for p in parts if "=" in p and p.split("=", 1)[0] in ("property", "key"))
        if d.get("property") != pid or "key" not in d:
            continue
        desc = line.split("::", 1)[1].strip() if "::" in line else ""
        out[d["key"]] = desc
    return out


# --------------------------------------------------------------------------------------
# Shrinking pass
# --------------------------------------------------------------------------------------
def shrink_key(mod, camp, camp_idx, key, tier, seed, shard, nshards, scratch_root, budget_s=40, budget_calls=600):
    """Re-run the shard that found `key` with phases generate+shrink and an assertion on exactly
    that key. Returns the minimised case or None."""
    from hypothesis import given, seed as hseed, Phase
    n = n_examples(camp, tier, mod.ID, nshards)
    state = {"t0": None, "calls": 0, "best": None, "msg": ""}
    scratch = tempfile.mkdtemp(prefix="shrink_", dir=scratch_root)

    @hseed(shard_seed(seed, shard, camp_idx))
    @hyp_settings(n, [Phase.generate, Phase.shrink])
    @given(camp.strategy(tier))
    def t(case):
        if state["t0"] is not None:
            state["calls"] += 1
            if state["calls"] > budget_calls or time.time() - state["t0"] > budget_s:
                return
        c = Ctx(tier, seed, shard, nshards, scratch, camp.name)
        guarded(camp.check, case, c, mod.ID)
        if key in c.fails:
            if state["t0"] is None:
                state["t0"] = time.time()
            state["best"] = case
            state["msg"] = c.fails[key]["msg"]
            raise AssertionError(key)
    try:
        t()
    except BaseException:
        pass
    shutil.rmtree(scratch, ignore_errors=True)
    if state["best"] is None:
        return None
    return state["best"], state["msg"]


# --------------------------------------------------------------------------------------
# Replay
# --------------------------------------------------------------------------------------
def write_replay(pid, key, campaign, case, msg, directory=None):
    directory = directory or os.path.join(os.environ.get("VERIF_REPLAY_DIR") or os.path.join(boot.HERE, "replays"), pid)
    os.makedirs(directory, exist_ok=True)
    name = "%s__%s.json" % (pid, hashlib.blake2b(key.encode(), digest_size=6).hexdigest())
    path = os.path.join(directory, name)
    with open(path, "w") as f:
        json.dump({"property": pid, "key": key, "campaign": campaign, "case": enc(case), "msg": msg},
                  f, indent=1, sort_keys=True)
    return path


def run_replay_file(mod, path, tier, scratch_root):
    """Runs one replay file; returns dict of failing keys -> bucket."""
    rec = json.load(open(path))
    case = dec(rec["case"])
    camps = [c for c in mod.campaigns(tier) if c.name == rec["campaign"]]
    if not camps:
        raise RuntimeError("replay %s: unknown campaign %r" % (path, rec["campaign"]))
    scratch = tempfile.mkdtemp(prefix="replay_", dir=scratch_root)
    ctx = Ctx(tier, 0, 0, 1, scratch, camps[0].name)
    ctx.evals += 1
    guarded(camps[0].check, case, ctx, mod.ID)
    shutil.rmtree(scratch, ignore_errors=True)
    return ctx


# --------------------------------------------------------------------------------------
# Main entry
# --------------------------------------------------------------------------------------
def main(pid, tier="quick", replay=None):
    t0 = time.time()
    seed = int(os.environ.get("VERIF_SEED", "1") or 1)
    try:
        mod = _load(pid)
    except Exception:
        traceback.print_exc()
        print("HARNESS-ERROR: cannot import property module %s" % pid)
        return 2
    scratch_root = tempfile.mkdtemp(prefix="verif_%s_" % pid)
    try:
        return _main(mod, pid, tier, replay, seed, scratch_root, t0)
    finally:
        shutil.rmtree(scratch_root, ignore_errors=True)


def _main(mod, pid, tier, replay, seed, scratch_root, t0):
    known = load_findings(pid)

    if replay is not None:
        try:
            ctx = run_replay_file(mod, replay, tier, scratch_root)
        except Exception:
            traceback.print_exc()
            print("HARNESS-ERROR: replay failed to run")
            return 2
        rc = 0
        for key, b in sorted(ctx.fails.items()):
            if key in known:
                print("KNOWN-FINDING: property=%s %s %s" % (pid, key, known[key]))
            else:
                print("FAIL %s: %s" % (key, b["msg"].strip().splitlines()[-1] if b["msg"].strip() else ""))
                print("VIOLATION property=%s replay=%s" % (pid, replay))
                rc = 1
        if rc == 0:
            print("replay %s: no (unlisted) violation" % replay)
        return rc

    camps = mod.campaigns(tier)
    tasks = []
    for ci, camp in enumerate(camps):
        for sh in range(NSHARDS):
            tasks.append((pid, tier, seed, ci, sh, NSHARDS, scratch_root))
    ctxm = multiprocessing.get_context("fork")
    results = []
    errors = []
    if NSHARDS == 1:
        it = map(_task, tasks)
    else:
        pool = ctxm.Pool(min(NSHARDS, 16))
        it = pool.imap_unordered(_task, tasks)
    for status, out in it:
        if status == "ok":
            results.append(out)
        else:
            errors.append(out)
    if NSHARDS != 1:
        pool.close()
        pool.join()
    if errors:
        for e in errors[:3]:
            sys.stderr.write(e + "\n")
        print("HARNESS-ERROR: %d campaign shard(s) raised inside the harness" % len(errors))
        return 2

    # regression replays (committed shrunk failures) run first in spirit; they are cheap
    reg_dir = os.path.join(boot.HERE, "replays", "regress")
    reg_ctxs = []
    if os.path.isdir(reg_dir):
        for fn in sorted(os.listdir(reg_dir)):
            if fn.startswith(pid + "__") and fn.endswith(".json"):
                try:
                    reg_ctxs.append((fn, run_replay_file(mod, os.path.join(reg_dir, fn), tier, scratch_root)))
                except Exception:
                    traceback.print_exc()
                    print("HARNESS-ERROR: regress replay %s failed to run" % fn)
                    return 2

    # merge
    evals = 0
    labels = collections.Counter()
    excluded = collections.Counter()
    nontrivial = set()
    samples = []
    sample_digests = set()
    fails = {}
    inconclusive = 0
    exhaustive = {}
    per_campaign = collections.OrderedDict((c.name, {"evaluations": 0, "wall_s": 0.0}) for c in camps)
    for out in sorted(results, key=lambda o: (o["campaign"], o["shard"])):
        evals += out["evals"]
        labels.update(out["labels"])
        excluded.update(out["excluded"])
        nontrivial.update(out["nontrivial"])
        inconclusive += out["inconclusive"]
        per_campaign[out["campaign"]]["evaluations"] += out["evals"]
        per_campaign[out["campaign"]]["wall_s"] = round(max(per_campaign[out["campaign"]]["wall_s"], out["wall"]), 1)
        for smp in out["samples"]:
            dg = digest(smp)
            if len(samples) < 5 and dg not in sample_digests:
                sample_digests.add(dg)
                samples.append({"campaign": out["campaign"], "case": smp})
        for name, ex in out["exhaustive"].items():
            e = exhaustive.setdefault(name, {"complete": True, "size": ex["size"], "note": ex["note"]})
            e["complete"] = e["complete"] and ex["complete"]
        for key, b in out["fails"].items():
            cur = fails.get(key)
            if cur is None:
                fails[key] = dict(b)
            else:
                cur["count"] += b["count"]
                if b["size"] < cur["size"]:
                    cnt = cur["count"]
                    cur.update(b)
                    cur["count"] = cnt
    for fn, rctx in reg_ctxs:
        evals += rctx.evals
        labels["regress_replays"] += 1
        for key, b in rctx.fails.items():
            cur = fails.get(key)
            if cur is None:
                b = dict(b)
                b["from_regress"] = fn
                fails[key] = b
            else:
                cur["count"] += b["count"]

    # classify
    rc = 0
    violations = []
    known_hit = []
    for key in sorted(fails):
        if key in known:
            known_hit.append(key)
            continue
        b = fails[key]
        case, msg = b["case"], b["msg"]
        camp_idx = [i for i, c in enumerate(camps) if c.name == b["campaign"]]
        if camp_idx and camps[camp_idx[0]].kind == "hyp" and "from_regress" not in b and len(violations) < 6 \
                and os.environ.get("VERIF_NOSHRINK") != "1":
            try:
                res = shrink_key(mod, camps[camp_idx[0]], camp_idx[0], key, tier, seed, b["shard"], NSHARDS, scratch_root)
            except Exception:
                res = None
            if res is not None and case_size(res[0]) <= b["size"]:
                case, msg = res
        path = write_replay(pid, key, b["campaign"], case, msg)
        violations.append((key, path, b["count"], msg))
    for key in known:
        if key in fails:
            print("KNOWN-FINDING: property=%s %s %s (reproduced %d times in this run)" % (pid, key, known[key], fails[key]["count"]))
        else:
            print("KNOWN-FINDING: property=%s %s %s (listed; not reproduced by this run)" % (pid, key, known[key]))
    for key, path, count, msg in violations:
        last = msg.strip().splitlines()[-1] if msg.strip() else ""
        print("FAIL %s (%d cases): %s" % (key, count, last[:300]))
        print("VIOLATION property=%s replay=%s" % (pid, os.path.relpath(path, boot.HERE)))
        rc = 1

    wall = time.time() - t0
    ev = {
        "property_id": pid,
        "tier": tier,
        "seed": seed,
        "level": "exploration",
        "coverage": {
            "evaluations": int(evals),
            "distinct_nontrivial": int(len(nontrivial)),
            "rule": mod.RULE,
            "samples": samples if samples else [{"note": "no sample recorded"}],
            "classes": dict(sorted(labels.items())),
            "campaigns": per_campaign,
            "excluded_by_known_finding": dict(excluded),
            "inconclusive_budget_skips": int(inconclusive),
            "known_findings_reproduced": known_hit,
            "failing_keys": sorted(fails.keys()),
            "shards": NSHARDS,
        },
        "assumptions": list(mod.ASSUMPTIONS),
        "wall_s": round(wall, 2),
        "violations": len(violations),
    }
    if exhaustive:
        ev["coverage"]["exhaustive_subdomains"] = exhaustive
        if all(e["complete"] for e in exhaustive.values()) and all(c.kind == "enum" for c in camps):
            ev["coverage"]["exhaustive"] = True
    evdir = os.environ.get("VERIF_EVIDENCE_DIR") or os.path.join(boot.HERE, "evidence")
    os.makedirs(evdir, exist_ok=True)
    with open(os.path.join(evdir, pid + ".json"), "w") as f:
        json.dump(ev, f, indent=1, sort_keys=True)
        f.write("\n")
    print("%s %s: %d evaluations, %d distinct non-trivial, %d failing key(s) [%d known], %d violation(s), %.1fs%s"
          % (pid, tier, evals, len(nontrivial), len(fails), len(known_hit), len(violations), wall,
             (" (inconclusive: %d cases skipped by time budget)" % inconclusive) if inconclusive else ""))
    return rc
